#!/usr/bin/env python3
"""Runner for the larking deterministic-simulation checks.

  run.py build                      build instrumenter + sim binaries from /repo's working tree
  run.py check <ID> quick|thorough  run one property's check, write evidence/<ID>.json
  run.py replay <ID> <file>         re-execute a replay file (exit 1 + VIOLATION line iff it fails the same way)

Exit codes: 0 held / 1 violation(s) not covered by known_findings.json /
2 build trouble, harness trouble, watchdog without a larking frame.
"""
import hashlib
import json
import os
import re
import shutil
import signal
import subprocess
import sys
import tempfile
import time

VERIF = os.path.dirname(os.path.abspath(__file__))
BUILD = os.environ.get("VERIF_BUILD", os.path.join(VERIF, ".build"))
OUTDIR = os.environ.get("VERIF_OUTDIR", VERIF)  # where evidence/ and replays/ are written
SIM = os.environ.get("VERIF_SIM", os.path.join(VERIF, "sim"))  # (tools/try_mutant.sh evaluates against a snapshot of the harness sources)
REPO = os.environ.get("VERIF_REPO", "/repo")
GO = "go1.26.8"
NWORKERS = int(os.environ.get("VERIF_WORKERS", "16"))

ENV = dict(os.environ)
ENV.update(GOFLAGS="-mod=mod", GOPROXY="off", GOSUMDB="off", GOTOOLCHAIN="local", CGO_ENABLED=ENV.get("CGO_ENABLED", "1"))

# runs per tier: plain = simulated runs on the plain build, race = runs on the
# race build, det = runs repeated in a second process to compare event-log digests.
PROPS = {
    "C17": dict(engine="codecsim", quick=dict(plain=600000, race=0, det=2000), thorough=dict(plain=40000000, race=0, det=20000)),
    "C06": dict(engine="muxsim", quick=dict(plain=100000, race=0, det=300), thorough=dict(plain=3000000, race=40000, det=2000)),
    "C13": dict(engine="muxsim", quick=dict(plain=40000, race=6000, det=300), thorough=dict(plain=1500000, race=200000, det=2000)),
    "C15": dict(engine="muxsim", quick=dict(plain=100000, race=0, det=300), thorough=dict(plain=5000000, race=20000, det=2000)),
    "C10": dict(engine="muxsim", quick=dict(plain=30000, race=0, det=100), thorough=dict(plain=1000000, race=30000, det=1000)),
    "C11": dict(engine="registrysim", quick=dict(plain=9000, race=0, det=60), thorough=dict(plain=300000, race=0, det=500)),
    "C12": dict(engine="registrysim", quick=dict(plain=10000, race=2500, det=60), thorough=dict(plain=400000, race=60000, det=500)),
    "C16": dict(engine="registrysim", quick=dict(plain=20000, race=0, det=60), thorough=dict(plain=1000000, race=0, det=500)),
}

COMPONENTS_CODECSIM = {
    "real": ["larking.CodecProto, larking.CodecJSON and the built-in HttpBody chunker (ReadNext / WriteNext)", "protobuf-go's protowire / protodelim error types"],
    "stub": ["the io.Reader feeding ReadNext: a scripted fragmenting / fault-injecting reader", "the caller of ReadNext: a model of the mux's HTTP stream reader (carry dst[n:] into the next call, switch buffers)",
             "no goroutines, no clock: codecsim is a single-threaded simulation of the byte stream only"],
}
COMPONENTS = {
    "real": ["larking package (all of Mux.ServeHTTP, registration, stream types, codecs, compressors, pools, proxy forwarders)",
             "protobuf-go, compress/gzip, gobwas/ws (server side), encoding/base64",
             "grpc-go client inside *grpc.ClientConn and grpc-go server + reflection acting as backends (in-bubble, in-memory conn)",
             "registry histories: a second, fresh larking Mux inside the same run, on which what the history left registered is registered once (the reference of the history-independence comparison)"],
    "stub": ["net/http server, HTTP/1 and HTTP/2 framing, TCP: the simulator calls Mux.ServeHTTP directly with simulated ResponseWriter/Flusher/Hijacker, Body and Context",
             "clients: independent protocol encoders/decoders in the harness", "clock: testing/synctest fake clock",
             "goroutine scheduling between simulated tasks: decided by the seeded driver"],
}


def log(*a):
    print(*a, file=sys.stderr, flush=True)


def run(cmd, **kw):
    return subprocess.run(cmd, env=ENV, **kw)


def build(race):
    """Rebuild from /repo's current working tree. Returns path of the test binary."""
    os.makedirs(BUILD, exist_ok=True)
    inst = os.path.join(BUILD, "instrument")
    r = run([GO, "build", "-o", inst, "./instrument"], cwd=SIM, capture_output=True, text=True)
    if r.returncode != 0:
        log(r.stdout + r.stderr)
        raise SystemExit(2)
    ovdir = tempfile.mkdtemp(prefix="ov-", dir=BUILD)
    try:
        args = [inst, "-src", os.path.join(REPO, "larking"), "-out", ovdir]
        if os.path.realpath(REPO) != "/repo":
            args += ["-as", "/repo/larking"]  # a scratch copy stands in for /repo through the overlay
        r = run(args, capture_output=True, text=True)
        if r.returncode != 0:
            log("instrumenter failed:\n" + r.stdout + r.stderr)
            raise SystemExit(2)
        out = os.path.join(BUILD, "sim.race.test" if race else "sim.test")
        cmd = [GO, "test", "-c", "-tags", "verif", "-overlay", os.path.join(ovdir, "overlay.json"), "-o", out]
        if race:
            cmd.append("-race")
        cmd.append("./engine")
        r = run(cmd, cwd=SIM, capture_output=True, text=True)
        if r.returncode != 0:
            log("build failed:\n" + r.stdout + r.stderr)
            raise SystemExit(2)
        return out
    finally:
        shutil.rmtree(ovdir, ignore_errors=True)


FRAME_RE = re.compile(r"^\s+(\S+\.go):(\d+)")
FUNC_RE = re.compile(r"^  (\S+)\(.*\)$|^(\S+)\(.*\)$")


def parse_race_stacks(text):
    """Return list of stacks (each a list of (func, file)) for the first race report."""
    m = text.find("WARNING: DATA RACE")
    if m < 0:
        return []
    body = text[m:]
    end = body.find("==================", 10)
    if end > 0:
        body = body[:end]
    stacks, cur = [], None
    lines = body.splitlines()
    i = 0
    while i < len(lines):
        ln = lines[i]
        if re.match(r"^(Write|Read|Previous write|Previous read|Previous atomic|Atomic)", ln.strip()) and " at " in ln:
            cur = []
            stacks.append(cur)
        elif ln.startswith("Goroutine ") or ln.strip().startswith("Goroutine "):
            cur = None
        elif cur is not None and ln.startswith("  ") and not ln.startswith("   ") and "(" in ln:
            fn = ln.strip()
            if fn.endswith("()"):
                fn = fn[:-2]
            f = lines[i + 1].strip() if i + 1 < len(lines) else ""
            cur.append((fn, f))
            i += 1
        i += 1
    return stacks[:2]


def attribute_race(stacks):
    """larking => violation, harness in both => harness trouble."""
    owners = []
    tops = []
    for st in stacks:
        owner, top = None, None
        for fn, f in st:
            if fn.startswith("runtime.") or fn.startswith("sync.") or fn.startswith("sync/atomic.") or fn.startswith("internal/"):
                continue
            if "larking.io/larking" in fn and "verif_hooks.go" not in f:
                owner, top = "larking", fn
                break
            if fn.startswith("verif/sim"):
                owner, top = "harness", fn
                break
        owners.append(owner)
        tops.append(top)
    return owners, tops


def larking_frame_in_crash(text):
    """For a Go panic/fatal error dump: is there a larking frame in the first goroutine stack?"""
    m = re.search(r"^(panic:|fatal error:).*$", text, re.M)
    if not m:
        return None, None
    rest = text[m.start():]
    first = rest.split("\n\ngoroutine ", 2)
    block = first[1] if len(first) > 1 else rest
    fn = None
    for ln in block.splitlines():
        if "larking.io/larking." in ln and "verif_hooks" not in ln:
            fn = ln.strip().split("(")[0]
            break
    return m.group(0), fn


class Batch:
    def __init__(self, prop, seed, tier, binary, total, mode="batch", label="plain", start=0):
        self.prop, self.seed, self.tier, self.binary, self.total = prop, seed, tier, binary, total
        self.mode, self.label = mode, label
        self.summaries, self.violations, self.trouble = [], [], []
        self.outdir = tempfile.mkdtemp(prefix="out-%s-%s-" % (prop, label), dir=BUILD)
        chunk = max(1, min(20000, total // (NWORKERS * 6) or 1))
        self.pending = [(a, min(a + chunk, start + total)) for a in range(start, start + total, chunk)]
        self.active = {}
        self.n = 0

    def spawn(self, frm, to):
        self.n += 1
        base = os.path.join(self.outdir, "w%d" % self.n)
        env = dict(ENV, VERIF_PROP=self.prop, VERIF_SEED=str(self.seed), VERIF_FROM=str(frm), VERIF_TO=str(to),
                   VERIF_OUT=base + ".jsonl", VERIF_MARK=base + ".mark", VERIF_MODE=self.mode, VERIF_TIER=self.tier,
                   GORACE="halt_on_error=1 history_size=2", GOTRACEBACK="all", GODEBUG="randseednop=0")
        errf = open(base + ".err", "wb")
        cmd = ["/bin/sh", "-c", "ulimit -v 8388608 2>/dev/null; exec \"$0\" \"$@\"", self.binary,
               "-test.run", "^TestWorker$", "-test.cpu", "1", "-test.timeout", "6h"]
        if "race" in self.label:
            cmd[2] = "exec \"$0\" \"$@\""  # the race runtime needs a large virtual address space
        p = subprocess.Popen(cmd, env=env, stdout=subprocess.DEVNULL, stderr=errf, cwd=BUILD)
        self.active[p.pid] = dict(p=p, frm=frm, to=to, base=base, errf=errf, last_mark=None, last_change=time.time(), quit_sent=False)

    def read_mark(self, base):
        try:
            return int(open(base + ".mark").read().split()[0])
        except Exception:
            return None

    def reap(self, w, rc):
        w["errf"].close()
        recs = []
        try:
            for ln in open(w["base"] + ".jsonl"):
                ln = ln.strip()
                if ln:
                    recs.append(json.loads(ln))
        except FileNotFoundError:
            pass
        summ = [r for r in recs if r.get("type") == "summary"]
        viol = [r for r in recs if r.get("type") == "violation"]
        self.summaries += summ
        self.violations += [v["replay"] for v in viol]
        nxt = summ[-1]["next"] if summ else None
        if rc in (0, 3, 4) and summ:
            if nxt < w["to"]:
                self.pending.insert(0, (nxt, w["to"]))
            return
        # crashed: attribute
        err = open(w["base"] + ".err", "rb").read().decode("utf-8", "replace")
        cur = self.read_mark(w["base"])
        if cur is None:
            cur = w["frm"]
        m = re.findall(r"VERIF-RUN (\d+)", err)
        if m:
            cur = int(m[-1])
        build_label = "race" if "race" in self.label else "plain"
        rf = dict(property=self.prop, engine=PROPS[self.prop]["engine"], build=build_label, verif_seed=self.seed, run=cur,
                  scenario=None, tape=[], digest="", trace=[], minimised=False, orig_tape_len=0)
        if "WARNING: DATA RACE" in err:
            stacks = parse_race_stacks(err)
            owners, tops = attribute_race(stacks)
            report = err[err.find("WARNING: DATA RACE"):][:6000]
            if "larking" in owners:
                top = [t for o, t in zip(owners, tops) if o == "larking"]
                rf.update(rule="data-race", context="|".join(sorted(set(short_fn(t) for t in top))), detail=report)
                self.violations.append(rf)
            else:
                self.trouble.append("race report attributed to the harness (run %d):\n%s" % (cur, report))
        else:
            head, fn = larking_frame_in_crash(err)
            if head and fn:
                rf.update(rule="crash", context=short_fn(fn), detail=head + "\n" + err[-3000:])
                self.violations.append(rf)
            elif w.get("quit_sent"):
                running = re.findall(r"goroutine \d+ \[running\]:\n((?:.+\n)+)", err)
                lf = [b for b in running if "larking.io/larking." in b]
                if lf:
                    rf.update(rule="busy-loop", context="watchdog", detail=lf[0][:3000])
                    self.violations.append(rf)
                else:
                    self.trouble.append("watchdog: worker stalled at run %d without a running larking frame:\n%s" % (cur, err[-4000:]))
            else:
                self.trouble.append("worker exited with status %s at run %s:\n%s" % (rc, cur, err[-4000:]))
        # continue after the crashed run
        if cur + 1 < w["to"] and len(self.violations) + len(self.trouble) < 40:
            self.pending.insert(0, (cur + 1, w["to"]))

    def run(self, deadline=None):
        while self.pending or self.active:
            while self.pending and len(self.active) < NWORKERS:
                if len(self.violations) >= 40 or self.trouble:
                    self.pending = []
                    break
                frm, to = self.pending.pop(0)
                self.spawn(frm, to)
            time.sleep(0.05)
            for pid, w in list(self.active.items()):
                rc = w["p"].poll()
                if rc is not None:
                    del self.active[pid]
                    self.reap(w, rc)
                    continue
                mk = self.read_mark(w["base"])
                now = time.time()
                if mk != w["last_mark"]:
                    w["last_mark"], w["last_change"] = mk, now
                elif now - w["last_change"] > 60 and not w["quit_sent"]:
                    w["quit_sent"] = True
                    w["p"].send_signal(signal.SIGQUIT)
                elif now - w["last_change"] > 90:
                    w["p"].kill()
        return self

    def cleanup(self):
        shutil.rmtree(self.outdir, ignore_errors=True)


def short_fn(fn):
    return fn.replace("larking.io/larking.", "")


def one_shot(binary, prop, mode, env_extra, timeout=300):
    """Run a single-purpose worker (replay / shrink / dump) and return its JSON records and stderr."""
    base = tempfile.mktemp(prefix="one-", dir=BUILD)
    env = dict(ENV, VERIF_PROP=prop, VERIF_MODE=mode, VERIF_OUT=base + ".jsonl", GORACE="halt_on_error=1",
               GOTRACEBACK="all", GODEBUG="randseednop=0", **env_extra)
    try:
        p = subprocess.run([binary, "-test.run", "^TestWorker$", "-test.cpu", "1", "-test.timeout", "30m"], env=env,
                           stdout=subprocess.DEVNULL, stderr=subprocess.PIPE, timeout=timeout, cwd=BUILD)
        err = p.stderr.decode("utf-8", "replace")
        rc = p.returncode
    except subprocess.TimeoutExpired:
        err, rc = "timeout", -9
    recs = []
    try:
        for ln in open(base + ".jsonl"):
            if ln.strip():
                recs.append(json.loads(ln))
        os.unlink(base + ".jsonl")
    except FileNotFoundError:
        pass
    return recs, err, rc


def load_known():
    p = os.path.join(VERIF, "known_findings.json")
    if not os.path.exists(p):
        return []
    return json.load(open(p)).get("findings", [])


def known_match(rf, known):
    for k in known:
        if k.get("status", "open") != "open":
            continue  # fixed entries suppress nothing
        if k["property"] != rf["property"] or k["rule"] != rf.get("rule"):
            continue
        if "context" in k and k["context"] != rf.get("context"):
            continue
        if "context_re" in k and not re.search(k["context_re"], rf.get("context") or ""):
            continue
        if "detail_re" in k and not re.search(k["detail_re"], rf.get("detail") or "", re.S):
            continue
        return k
    return None


def replay_file(binaries, path):
    rf = json.load(open(path))
    prop = rf["property"]
    binary = binaries["race" if rf.get("build") == "race" else "plain"]
    if rf.get("rule") in ("data-race", "crash", "busy-loop") or rf.get("scenario") is None:
        # process-level findings: re-run exactly that (seed, run) and look at how the process ends
        # under the race build sync.Pool drops Puts at random, so the same
        # (seed, run) is retried a few times before giving up
        for attempt in range(6 if rf.get("build") == "race" else 1):
            b = Batch(prop, rf["verif_seed"], "quick", binary, 1, label=rf.get("build", "plain"), start=rf["run"])
            b.run()
            b.cleanup()
            for v in b.violations:
                if v.get("rule") == rf.get("rule"):
                    return True, v
        return False, None
    # The seed does not own Go's map iteration order inside larking nor select
    # choice inside grpc-go (DESIGN section 2): a replay that depends on either
    # may need more than one attempt.
    last = None
    for attempt in range(4):
        recs, err, rc = one_shot(binary, prop, "replay", dict(VERIF_REPLAY=path))
        for r in recs:
            if r.get("type") == "replay":
                v = r.get("violation")
                if v and v["rule"] == rf["rule"]:
                    return True, dict(rf, digest_now=r.get("digest"), detail=v["detail"], attempts=attempt + 1)
                last = r
        if rc != 0:
            # the replay crashed the process; classify as the batch would
            head, fn = larking_frame_in_crash(err)
            if rf.get("rule") == "crash" and fn:
                return True, rf
    return False, last


def write_evidence(prop, tier, seed, level, cov, wall, nviol, assumptions):
    os.makedirs(os.path.join(OUTDIR, "evidence"), exist_ok=True)
    ev = dict(property_id=prop, tier=tier, seed=seed, level=level, coverage=cov, assumptions=assumptions, wall_s=round(wall, 2), violations=nviol)
    tmp = os.path.join(OUTDIR, "evidence", prop + ".json.tmp")
    json.dump(ev, open(tmp, "w"), indent=1, sort_keys=True)
    os.replace(tmp, os.path.join(OUTDIR, "evidence", prop + ".json"))


ASSUMPTIONS = {
    "codecsim": ["the reader obeys the io.Reader contract (the scripted reader only produces legal behaviours: short reads, (0,nil), (n>0,io.EOF), errors)",
                 "the caller follows the StreamCodec contract as larking's HTTP stream reader does: dst[n:] of one call is the prefix of buf in the next"],
    "muxsim": ["net/http is replaced by a stub honouring these contract points: header snapshot at first WriteHeader/Write/Flush; trailers = keys announced in Trailer before the snapshot or carrying http.TrailerPrefix; Body.Read fails after Body.Close, after the handler returned and after client abort; on abort the request context is cancelled and Write fails; ContentLength=-1 for streamed bodies; ProtoMajor=2 for gRPC; full duplex; a broken body reads as an opaque error (HTTP/2) or io.ErrUnexpectedEOF (HTTP/1.1) per request; response bytes sit in a 4 KiB buffer until Flush, overflow or handler return; the two directions of a request are independent objects (no lock shared between body reads and response writes)",
               "map iteration order inside larking and select choice inside grpc-go are not owned by the seed; oracles do not depend on them",
               "a task runs atomically between two yield points; finer preemption is only seen by the race detector"],
}
ASSUMPTIONS["registrysim"] = ASSUMPTIONS["muxsim"] + ["yield points inserted by pattern into an instrumented copy of larking (overlay) do not change behaviour"]


def check(prop, tier, seed):
    t0 = time.time()
    cfg = PROPS[prop][tier]
    scale = float(os.environ.get("VERIF_SCALE", "1"))
    nplain, nrace, ndet = int(cfg["plain"] * scale), int(cfg["race"] * scale), int(cfg["det"] * scale)
    binaries = {"plain": build(False)}
    if nrace:
        binaries["race"] = build(True)
    log("[%s] built in %.1fs" % (prop, time.time() - t0))
    known = load_known()

    batches = []
    b = Batch(prop, seed, tier, binaries["plain"], nplain, label="plain").run()
    batches.append(b)
    if nrace and not b.trouble:
        br = Batch(prop, seed, tier, binaries["race"], nrace, label="race").run()
        batches.append(br)
    # determinism sample: same runs again, in fresh processes with another partition
    det = dict(sample=0, divergences=0, diverged_runs=[])
    if ndet and not b.trouble:
        d1 = Batch(prop, seed, tier, binaries["plain"], ndet, mode="digests", label="det1").run()
        global NWORKERS
        saved = NWORKERS
        NWORKERS = max(1, saved // 4)
        d2 = Batch(prop, seed, tier, binaries["plain"], ndet, mode="digests", label="det2").run()
        NWORKERS = saved
        g1, g2 = {}, {}
        for s in d1.summaries:
            g1.update(s.get("digests") or {})
        for s in d2.summaries:
            g2.update(s.get("digests") or {})
        common = set(g1) & set(g2)
        det["sample"] = len(common)
        det["diverged_runs"] = sorted(int(k) for k in common if g1[k] != g2[k])[:20]
        det["divergences"] = sum(1 for k in common if g1[k] != g2[k])
        det["worker_counts"] = [saved, NWORKERS if False else max(1, saved // 4)]
        d1.cleanup()
        d2.cleanup()

    trouble = [t for bb in batches for t in bb.trouble]
    violations = [v for bb in batches for v in bb.violations]
    # oracle rules named harness-* are the harness doubting itself: trouble (exit 2), never a violation
    trouble += ["%s at run %s: %s" % (v.get("rule"), v.get("run"), (v.get("detail") or "")[:1500]) for v in violations if (v.get("rule") or "").startswith("harness")]
    violations = [v for v in violations if not (v.get("rule") or "").startswith("harness")]
    log("[%s] batches done at %.1fs: %d violations raw" % (prop, time.time() - t0, len(violations)))

    # aggregate
    runs = steps = simns = 0
    counters, extra, shapes = {}, {}, {}
    nontriv = set()
    sched = 0
    samples = []
    race_runs = 0
    wall_workers = 0.0
    for bb in batches:
        for s in bb.summaries:
            runs += s["runs"]
            steps += s["steps"]
            simns += s["sim_time_ns"]
            wall_workers += s["wall_s"]
            if s.get("race"):
                race_runs += s["runs"]
            for k, v in s["counters"].items():
                counters[k] = counters.get(k, 0) + v
            for k, v in (s.get("extra") or {}).items():
                extra[k] = extra.get(k, 0) + v
            for k, v in s["shapes"].items():
                shapes[k] = shapes.get(k, 0) + v
            nontriv.update(s["nontrivial"])
            sched += s["sched_sigs"]
            if len(samples) < 4:
                samples += (s.get("samples") or [])[:1]

    # minimise + confirm each distinct violation
    reported, known_hits = [], {}
    by_key = {}
    for v in violations:
        by_key.setdefault((v.get("rule"), v.get("context")), []).append(v)
    os.makedirs(os.path.join(OUTDIR, "replays"), exist_ok=True)
    further = []
    for (rule, context), vs in sorted(by_key.items(), key=lambda kv: (-len(kv[1]), str(kv[0]))):
        if len(reported) >= 8:
            # enough to act on: the rest is listed in the evidence, not minimised
            further.append(dict(rule=rule, context=context, runs=len(vs), first_run=min(x["run"] for x in vs)))
            continue
        v = min(vs, key=lambda x: (x.get("orig_tape_len", 0), x["run"]))
        k = known_match(v, known)
        if k is not None:
            known_hits.setdefault(k["id"], dict(k=k, n=0))["n"] += len(vs)
            continue
        binary = binaries.get(v.get("build", "plain"), binaries["plain"])
        name = "%s-%s-%d-%d.json" % (prop, re.sub(r"[^A-Za-z0-9]+", "_", (rule or "x") + "_" + (context or ""))[:60], seed, v["run"])
        path = os.path.join(OUTDIR, "replays", name)
        if v.get("scenario") is not None and v.get("build", "plain") == "plain":
            json.dump(v, open(path, "w"))
            # minimisation budget: generous for the first few distinct violations of a batch, short afterwards
            budget = 40 if len(reported) < 3 else 8
            recs, err, rc = one_shot(binary, prop, "shrink", dict(VERIF_REPLAY=path, VERIF_BUDGET=str(budget)), timeout=budget * 3 + 30)
            for r in recs:
                if r.get("type") == "shrunk":
                    v = r["replay"]
                    # the minimised form may be a known finding even if the raw one was not keyed precisely
        k = known_match(v, known)
        if k is not None:
            known_hits.setdefault(k["id"], dict(k=k, n=0))["n"] += len(vs)
            if os.path.exists(path):
                os.unlink(path)
            continue
        json.dump(v, open(path, "w"), indent=1)
        log("[%s] minimised %s at %.1fs" % (prop, name, time.time() - t0))
        ok, _ = replay_file(binaries, path)
        v["replay_confirmed"] = bool(ok)
        v["occurrences"] = len(vs)
        json.dump(v, open(path, "w"), indent=1)
        reported.append((v, path))

    wall = time.time() - t0
    cov = dict(
        evaluations=runs,
        distinct_nontrivial=len(nontriv),
        rule="runs are generated from PRNG(VERIF_SEED, property, run index): a scenario (workload, knobs, enabled fault kinds) plus a choice tape deciding every interleaving, fragment size and fault instant. "
             "A run counts as non-trivial when at least one fault fired or two tasks with in-flight state interleaved (codecsim: at least one read was split or a fault placed); "
             "distinct = distinct (scenario shape, schedule signature) pairs, the signature being the hash of the ordered (task, operation) sequence",
        samples=samples or [dict(note="no non-trivial sample recorded")],
        exhaustive=False,
        steps=steps,
        simulated_time_s=round(simns / 1e9, 3),  # per run capped at one hour
        runs_per_hour=int(runs / max(wall, 1e-9) * 3600),
        seeds=[seed],
        race_build_runs=race_runs,
        faults_and_probes=dict(sorted(counters.items())),
        scenario_shapes=len(shapes),
        schedule_signatures_sum_over_workers=sched,
        engine_totals=extra,
        determinism=det,
        components=COMPONENTS_CODECSIM if PROPS[prop]["engine"] == "codecsim" else COMPONENTS,
        known_findings_hit={kid: h["n"] for kid, h in known_hits.items()},
        violations_reported=[dict(rule=v.get("rule"), context=v.get("context"), replay=p) for v, p in reported],
        further_violation_keys_not_minimised=further,
        harness_trouble=trouble[:3],
        workers=NWORKERS,
    )
    write_evidence(prop, tier, seed, "exploration", cov, wall, len(reported), ASSUMPTIONS[PROPS[prop]["engine"]])
    for bb in batches:
        bb.cleanup()

    for kid, h in sorted(known_hits.items()):
        print("KNOWN-FINDING: property=%s %s (%d runs; %s)" % (prop, h["k"]["what"], h["n"], kid))
    for v, p in reported:
        print("VIOLATION property=%s replay=%s" % (prop, p))
        log("  rule=%s context=%s confirmed=%s\n  %s" % (v.get("rule"), v.get("context"), v.get("replay_confirmed"), (v.get("detail") or "")[:600]))
    log("[%s] %s: %d runs (%d race), %d distinct non-trivial, %d violations, %d known, det %d/%d diverged, %.1fs"
        % (prop, tier, runs, race_runs, len(nontriv), len(reported), len(known_hits), det["divergences"], det["sample"], wall))
    if trouble:
        log("HARNESS TROUBLE:\n" + "\n".join(trouble[:3]))
        if not any(v.get("replay_confirmed") for v, _ in reported):
            return 2
        # violations that replay were found as well: they are the verdict (a
        # stalled or crashed worker next to them is most likely the same change
        # seen through a run the harness could not finish)
    if runs < nplain + nrace - 0 and not reported and not known_hits:
        log("harness: only %d of %d runs executed" % (runs, nplain + nrace))
        return 2
    return 1 if reported else 0


def main():
    if len(sys.argv) < 2:
        print(__doc__)
        return 2
    cmd = sys.argv[1]
    if cmd == "build":
        build(False)
        build(True)
        return 0
    if cmd == "check":
        prop, tier = sys.argv[2], (sys.argv[3] if len(sys.argv) > 3 else os.environ.get("VERIF_TIER", "quick"))
        seed = int(os.environ.get("VERIF_SEED", "1"))
        return check(prop, tier, seed)
    if cmd == "replay":
        prop, path = sys.argv[2], sys.argv[3]
        rf = json.load(open(path))
        binaries = {"plain": build(False)}
        if rf.get("build") == "race":
            binaries["race"] = build(True)
        ok, info = replay_file(binaries, path)
        if ok:
            print("VIOLATION property=%s replay=%s" % (prop, path))
            log("  rule=%s context=%s digest recorded=%s now=%s" % (rf.get("rule"), rf.get("context"), rf.get("digest"), (info or {}).get("digest_now")))
            return 1
        log("replay did not reproduce: %s" % (json.dumps(info)[:500] if info else "no result"))
        return 0
    print(__doc__)
    return 2


if __name__ == "__main__":
    try:
        rc = main()
    except SystemExit:
        raise
    except BaseException:
        import traceback
        traceback.print_exc()
        rc = 2  # runner trouble is never a violation
    sys.exit(rc)
