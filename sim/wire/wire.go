// Package wire holds the client-side protocol encoders and decoders of the
// simulation, written from the protocol specifications independently of
// larking's own framing code: gRPC length-prefixed messages, gRPC-web trailer
// frames and base64 text mode, varint-delimited protobuf streams, JSON object
// streams and WebSocket frames (frame codec from gobwas/ws, client role).
package wire

import (
	"bytes"
	"compress/gzip"
	"encoding/base64"
	"encoding/binary"
	"encoding/json"
	"errors"
	"fmt"
	"io"
	"net/http"
	"net/textproto"
	"strconv"
	"strings"

	"github.com/gobwas/ws"
)

// ---- gRPC ------------------------------------------------------------------

func Gzip(b []byte) []byte {
	var buf bytes.Buffer
	zw := gzip.NewWriter(&buf)
	zw.Write(b)
	zw.Close()
	return buf.Bytes()
}

func Gunzip(b []byte) ([]byte, error) {
	zr, err := gzip.NewReader(bytes.NewReader(b))
	if err != nil {
		return nil, err
	}
	return io.ReadAll(zr)
}

// GRPCFrame appends one length-prefixed message.
func GRPCFrame(dst, payload []byte, compress bool) []byte {
	flag := byte(0)
	if compress {
		payload = Gzip(payload)
		flag = 1
	}
	var hdr [5]byte
	hdr[0] = flag
	binary.BigEndian.PutUint32(hdr[1:], uint32(len(payload)))
	dst = append(dst, hdr[:]...)
	return append(dst, payload...)
}

type Frame struct {
	Flag    byte
	Payload []byte // decompressed if the compressed bit was set
}

// ParseGRPCFrames splits a byte stream into frames. rest is an incomplete
// trailing frame (nil if the stream ends on a frame boundary).
func ParseGRPCFrames(b []byte) (frames []Frame, rest []byte, err error) {
	for len(b) > 0 {
		if len(b) < 5 {
			return frames, b, nil
		}
		n := int(binary.BigEndian.Uint32(b[1:5]))
		if len(b) < 5+n {
			return frames, b, nil
		}
		f := Frame{Flag: b[0], Payload: b[5 : 5+n]}
		if f.Flag&1 == 1 {
			p, err := Gunzip(f.Payload)
			if err != nil {
				return frames, b, fmt.Errorf("frame %d: gunzip: %v", len(frames), err)
			}
			f.Payload = p
		}
		frames = append(frames, f)
		b = b[5+n:]
	}
	return frames, nil, nil
}

// Status is the final status of a gRPC / gRPC-web call as seen by a client.
type Status struct {
	Present bool
	Code    int
	Message string
	Details []byte
}

// PercentDecode decodes grpc-message.
func PercentDecode(s string) string {
	if !strings.Contains(s, "%") {
		return s
	}
	var b bytes.Buffer
	for i := 0; i < len(s); i++ {
		if s[i] == '%' && i+2 < len(s) {
			if v, err := strconv.ParseUint(s[i+1:i+3], 16, 8); err == nil {
				b.WriteByte(byte(v))
				i += 2
				continue
			}
		}
		b.WriteByte(s[i])
	}
	return b.String()
}

func StatusFromHeader(h http.Header) Status {
	v := h.Get("Grpc-Status")
	if v == "" {
		return Status{}
	}
	code, err := strconv.Atoi(v)
	if err != nil {
		return Status{Present: true, Code: -1, Message: "unparsable grpc-status " + v}
	}
	st := Status{Present: true, Code: code, Message: PercentDecode(h.Get("Grpc-Message"))}
	if d := h.Get("Grpc-Status-Details-Bin"); d != "" {
		st.Details, _ = base64.RawStdEncoding.DecodeString(strings.TrimRight(d, "="))
	}
	return st
}

// ParseWebTrailer parses the payload of a gRPC-web trailer frame.
func ParseWebTrailer(p []byte) (http.Header, error) {
	tp := textproto.NewReader(bufioReader(append(append([]byte{}, p...), '\r', '\n')))
	mh, err := tp.ReadMIMEHeader()
	if err != nil && !errors.Is(err, io.EOF) {
		return nil, err
	}
	return http.Header(mh), nil
}

// ---- varint-delimited protobuf ----------------------------------------------

func AppendVarintDelimited(dst, payload []byte) []byte {
	var tmp [binary.MaxVarintLen64]byte
	n := binary.PutUvarint(tmp[:], uint64(len(payload)))
	dst = append(dst, tmp[:n]...)
	return append(dst, payload...)
}

func ParseVarintDelimited(b []byte) (msgs [][]byte, rest []byte) {
	for len(b) > 0 {
		size, n := binary.Uvarint(b)
		if n <= 0 || uint64(len(b)-n) < size {
			return msgs, b
		}
		msgs = append(msgs, b[n:n+int(size)])
		b = b[n+int(size):]
	}
	return msgs, nil
}

// ---- JSON object stream ------------------------------------------------------

// SplitJSONObjects splits a concatenation of JSON values; rest holds trailing
// bytes that do not form a complete value.
func SplitJSONObjects(b []byte) (objs [][]byte, rest []byte) {
	dec := json.NewDecoder(bytes.NewReader(b))
	off := 0
	for {
		var raw json.RawMessage
		if err := dec.Decode(&raw); err != nil {
			tail := bytes.TrimSpace(b[off:])
			if len(tail) == 0 {
				return objs, nil
			}
			return objs, tail
		}
		objs = append(objs, raw)
		off = int(dec.InputOffset())
	}
}

// ---- base64 text mode --------------------------------------------------------

func Base64Encode(b []byte) []byte {
	out := make([]byte, base64.StdEncoding.EncodedLen(len(b)))
	base64.StdEncoding.Encode(out, b)
	return out
}

// Base64DecodeStream decodes a grpc-web-text body: one or more padded base64
// segments back to back.
func Base64DecodeStream(b []byte) ([]byte, error) {
	var out []byte
	for len(b) > 0 {
		// a segment ends after the first quantum containing '='
		end := len(b)
		if i := bytes.IndexByte(b, '='); i >= 0 {
			end = (i/4 + 1) * 4
			if end > len(b) {
				return out, fmt.Errorf("base64: truncated quantum at %d", i)
			}
		}
		seg := b[:end]
		if len(seg)%4 != 0 {
			return out, fmt.Errorf("base64: %d trailing characters do not form a quantum (tail of the stream was not flushed)", len(seg)%4)
		}
		dec := make([]byte, base64.StdEncoding.DecodedLen(len(seg)))
		n, err := base64.StdEncoding.Decode(dec, seg)
		if err != nil {
			return out, err
		}
		out = append(out, dec[:n]...)
		b = b[end:]
	}
	return out, nil
}

// ---- WebSocket (client role) -------------------------------------------------

// WSClientFrame renders a masked client frame.
func WSClientFrame(op ws.OpCode, payload []byte, fin bool, mask [4]byte) []byte {
	f := ws.NewFrame(op, fin, append([]byte(nil), payload...))
	f = ws.MaskFrameInPlaceWith(f, mask)
	var buf bytes.Buffer
	if err := ws.WriteFrame(&buf, f); err != nil {
		panic(err)
	}
	return buf.Bytes()
}

func WSClientClose(code ws.StatusCode, reason string, mask [4]byte) []byte {
	return WSClientFrame(ws.OpClose, ws.NewCloseFrameBody(code, reason), true, mask)
}

type WSFrame struct {
	Op      ws.OpCode
	Fin     bool
	Payload []byte
}

// ParseWSServerFrames parses unmasked server frames; rest is an incomplete tail.
func ParseWSServerFrames(b []byte) (frames []WSFrame, rest []byte, err error) {
	for len(b) > 0 {
		r := bytes.NewReader(b)
		h, err := ws.ReadHeader(r)
		if err != nil {
			if errors.Is(err, io.EOF) || errors.Is(err, io.ErrUnexpectedEOF) {
				return frames, b, nil
			}
			return frames, b, err
		}
		hl := len(b) - r.Len()
		if int64(len(b)-hl) < h.Length {
			return frames, b, nil
		}
		p := append([]byte(nil), b[hl:hl+int(h.Length)]...)
		if h.Masked {
			ws.Cipher(p, h.Mask, 0)
		}
		frames = append(frames, WSFrame{Op: h.OpCode, Fin: h.Fin, Payload: p})
		b = b[hl+int(h.Length):]
	}
	return frames, nil, nil
}

// SplitHTTPResponseHead splits "HTTP/1.1 101 ...\r\n...\r\n\r\n" from the rest.
func SplitHTTPResponseHead(b []byte) (status int, head, rest []byte, ok bool) {
	i := bytes.Index(b, []byte("\r\n\r\n"))
	if i < 0 {
		return 0, nil, b, false
	}
	head, rest = b[:i+4], b[i+4:]
	parts := strings.SplitN(string(head), " ", 3)
	if len(parts) >= 2 {
		status, _ = strconv.Atoi(parts[1])
	}
	return status, head, rest, true
}
