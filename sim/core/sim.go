package core

import (
	"fmt"
	"runtime"
	"strings"
	"sync"
	"testing/synctest"
	"time"
)

// Enabler is implemented by the objects tasks park on. Enabled must be a
// go:norace method reading go:norace-maintained mirror fields only: it is
// called by the driver, whose accesses must never be visible to the race
// detector (the driver holds an acquire on everything after synctest.Wait and
// must pass it on to nobody).
type Enabler interface{ Enabled(op int) bool }

type alwaysT struct{}

//go:norace
func (alwaysT) Enabled(int) bool { return true }

// Always is the Enabler of operations that can run whenever they are chosen.
var Always Enabler = alwaysT{}

// gate is a one-shot parking place. A fresh one is allocated per park so that
// no mutex is ever locked by two goroutines: the race detector sees no
// happens-before edge between successive users of a slot or between the driver
// and a task.
type gate struct {
	mu   sync.Mutex
	cond *sync.Cond
	ok   bool
}

//go:norace
func (g *gate) granted() bool { return g.ok }

//go:norace
func (g *gate) grant() { g.ok = true }

// Slot is a place where exactly one goroutine at a time can be parked.
type Slot struct {
	sim    *Sim
	ID     int
	Name   string
	Weight int
	// QueueOK: operations with this label may be called by several goroutines
	// at once (Write on a net.Conn: each call is atomic, callers are served one
	// after the other); for every other label a second parked goroutine is a
	// finding
	QueueOK string
	// driver-visible state, go:norace access only
	cur   *gate
	extra []*gate
	label string
	en    Enabler
	op    int
	parks int
}

//go:norace
func (s *Slot) publish(g *gate, label string, en Enabler, op int) {
	if s.cur != nil {
		// A second goroutine parks where one is already parked (two
		// concurrent reads of one body, ...). Queue it so nobody is
		// orphaned, and remember it: engines report it as a finding.
		s.extra = append(s.extra, g)
		if label == s.QueueOK && s.label == s.QueueOK {
			return
		}
		s.sim.sanity = append(s.sim.sanity, "two goroutines parked at once on "+s.Name+" ("+s.label+" and "+label+")")
		return
	}
	s.cur, s.label, s.en, s.op = g, label, en, op
	s.parks++
}

//go:norace
func (s *Slot) take() *gate {
	g := s.cur
	s.cur = nil
	if len(s.extra) > 0 {
		s.cur = s.extra[0]
		s.extra = s.extra[1:]
	}
	return g
}

//go:norace
func (s *Slot) parked() bool { return s.cur != nil }

//go:norace
func (s *Slot) enabledNow() bool { return s.cur != nil && s.en.Enabled(s.op) }

//go:norace
func (s *Slot) curLabel() string { return s.label }

// Yield parks the calling goroutine until the driver grants this slot. It
// returns false if the simulation is being torn down (the caller must then
// fail its operation and unwind).
func (s *Slot) Yield(label string, en Enabler, op int) bool {
	if s.sim.aborting() {
		return false
	}
	g := &gate{}
	g.cond = sync.NewCond(&g.mu)
	g.mu.Lock()
	s.publish(g, label, en, op)
	for !g.granted() {
		g.cond.Wait() // durably blocked inside a synctest bubble
	}
	g.mu.Unlock()
	return !s.sim.aborting()
}

// Step is one driver decision.
type Step struct {
	N     int
	Slot  int
	Label string
	Clock time.Duration // >0: the driver advanced the fake clock instead of releasing a task
	Notes []string
}

type mutexMirror struct {
	addr any
	held bool
}

type gidEntry struct {
	gid  uint64
	slot *Slot
}

// ClockPlan lets the driver advance the fake clock as a scheduled operation.
type ClockPlan struct {
	Jumps  []time.Duration // taken in order
	Weight int
	Gate   Enabler // optional: jumps are only offered while Gate.Enabled(0)
	next   int
}

// SchedPolicy is how the driver picks among the enabled operations of a step.
// Every decision still comes from the tape (a tape that has run out keeps a
// sticky run on the task it is on and a priority run on its priorities), so
// shrinking a tape stays valid under every policy.
//
//	""        weighted uniform choice among the enabled slots (and the clock)
//	"sticky"  3 steps in 4 the slot that moved last moves again while it can:
//	          long runs of one task, one task far ahead of the others
//	"prio"    7 steps in 8 the enabled slot with the highest priority moves;
//	          priorities are a hash of (Seed, slot id), and at the step numbers
//	          in Changes the slot that moves is demoted below all others
//	          (probabilistic concurrency testing, Burckhardt et al. 2010)
type SchedPolicy struct {
	Kind    string `json:"kind"`
	Seed    uint64 `json:"seed,omitempty"`
	Changes []int  `json:"changes,omitempty"`
}

type Sim struct {
	Tape    *Tape
	StepCap int
	Policy  *SchedPolicy
	last    *Slot    // driver only
	demoted []uint64 // driver only: slot id -> priority override (0: none)
	nextLow uint64
	Horizon time.Duration // how far the clock may be pushed to release timers before a wedge is declared
	Clock   *ClockPlan

	slots []*Slot
	// go:norace state
	step     int
	abort    bool
	idle     bool
	trace    []Step
	notes    []string
	mutexes  [16]mutexMirror
	gids     [512]gidEntry
	counters [NumCounters]int
	lockWaiters []string // request tasks that waited for a gated mutex
	sanity   []string
	idleAdv  time.Duration
	start    time.Time
}

func NewSim(t *Tape) *Sim {
	return &Sim{Tape: t, StepCap: 4000, Horizon: 10 * time.Minute, trace: make([]Step, 0, 256), start: time.Now()}
}

func (s *Sim) NewSlot(name string, weight int) *Slot {
	if weight <= 0 {
		weight = 1
	}
	sl := &Slot{sim: s, ID: len(s.slots), Name: name, Weight: weight}
	s.slots = append(s.slots, sl)
	return sl
}

//go:norace
func (s *Sim) idleNow() bool { return s.idle }

//go:norace
func (s *Sim) setIdle(v bool) { s.idle = v }

// IdleNow reports that nothing else was able to move at the last quiescent
// point (for Enablers of operations that are armed "from step N on").
//
//go:norace
func (s *Sim) IdleNow() bool { return s.idle }

//go:norace
func (s *Sim) aborting() bool { return s.abort }

//go:norace
func (s *Sim) setAbort() { s.abort = true }

// Aborting reports that the run is being torn down.
//
//go:norace
func (s *Sim) Aborting() bool { return s.abort }

// Draw is the tape access for the task that currently holds the grant.
//
//go:norace
func (s *Sim) Draw(n int) int { return s.Tape.Draw(n) }

//go:norace
func (s *Sim) Chance(num, den int) bool { return s.Tape.Chance(num, den) }

// Note attaches a remark to the current step of the trace. Callers build msg
// without fmt (fmt's sync.Pool would add happens-before edges between tasks).
//
//go:norace
func (s *Sim) Note(msg string) {
	if n := len(s.trace); n > 0 {
		s.trace[n-1].Notes = append(s.trace[n-1].Notes, msg)
	} else {
		s.notes = append(s.notes, msg)
	}
}

// NumCounters bounds the reach/fault counter ids an engine may use (a fixed
// array, not a map: map writes are race-instrumented inside the runtime).
const NumCounters = 96

// Count bumps a reach/fault counter.
//
//go:norace
func (s *Sim) Count(id int) { s.counters[id]++ }

//go:norace
func (s *Sim) CountN(id, n int) { s.counters[id] += n }

//go:norace
func (s *Sim) Counters() [NumCounters]int { return s.counters }

// Sanity returns the simulator's own sanity remarks (e.g. two goroutines
// blocked in one simulated I/O object at once).
//
//go:norace
func (s *Sim) Sanity() []string { return s.sanity }

//go:norace
func (s *Sim) StepNo() int { return s.step }

//go:norace
func (s *Sim) Trace() []Step { return s.trace }

//go:norace
func (s *Sim) PreNotes() []string { return s.notes }

// Now is the simulated time since the run started.
func (s *Sim) Now() time.Duration { return time.Since(s.start) }

// ---- goroutine identity for yields inserted into larking -------------------

func curGID() uint64 {
	var buf [64]byte
	n := runtime.Stack(buf[:], false)
	// "goroutine 123 ["
	var id uint64
	for i := len("goroutine "); i < n; i++ {
		c := buf[i]
		if c < '0' || c > '9' {
			break
		}
		id = id*10 + uint64(c-'0')
	}
	return id
}

//go:norace
func (s *Sim) bindGID(gid uint64, sl *Slot) {
	for i := range s.gids {
		if s.gids[i].gid == 0 || s.gids[i].gid == gid {
			s.gids[i] = gidEntry{gid, sl}
			return
		}
	}
	panic("sim: goroutine table full")
}

//go:norace
func (s *Sim) lookupGID(gid uint64) *Slot {
	for i := range s.gids {
		if s.gids[i].gid == gid {
			return s.gids[i].slot
		}
		if s.gids[i].gid == 0 {
			return nil
		}
	}
	return nil
}

// CurrentSlot returns the slot the calling goroutine is bound to (nil: none).
func (s *Sim) CurrentSlot() *Slot { return s.lookupGID(curGID()) }

// Bind makes inserted yields executed by the calling goroutine park on sl.
func (s *Sim) Bind(sl *Slot) { s.bindGID(curGID(), sl) }

// Unbind makes the calling goroutine pass through inserted yields again.
func (s *Sim) Unbind() { s.bindGID(curGID(), nil) }

// InsertedYield is installed as larking.VerifYield.
func (s *Sim) InsertedYield(site string) {
	sl := s.lookupGID(curGID())
	if sl == nil {
		return
	}
	sl.Yield("y:"+site, Always, 0)
}

// ---- mutex mirrors ---------------------------------------------------------

type mutexEnabler struct {
	s    *Sim
	addr any
}

//go:norace
func (m mutexEnabler) Enabled(int) bool {
	for i := range m.s.mutexes {
		if m.s.mutexes[i].addr == m.addr {
			return !m.s.mutexes[i].held
		}
	}
	return true
}

//go:norace
func (s *Sim) setHeld(addr any, held bool) {
	for i := range s.mutexes {
		if s.mutexes[i].addr == addr || s.mutexes[i].addr == nil {
			s.mutexes[i].addr = addr
			s.mutexes[i].held = held
			return
		}
	}
	panic("sim: mutex table full")
}

// LockGate is installed as larking.VerifLockGate: a task is not released into
// Lock() while the mirror says another task holds the mutex (sync.Mutex
// blocking is not durable inside a bubble).
func (s *Sim) LockGate(addr any) {
	sl := s.lookupGID(curGID())
	if sl == nil {
		return
	}
	if len(sl.Name) > 1 && sl.Name[0] == 'r' && sl.Name[1] >= '0' && sl.Name[1] <= '9' && !(mutexEnabler{s, addr}).Enabled(0) {
		// a task that serves a request is about to wait for a mutex that a
		// registration holds (larking's readers are lock-free: registration
		// runs beside serving, not in front of it)
		s.noteWaitedForLock(sl.Name)
	}
	sl.Yield("lock", mutexEnabler{s, addr}, 0)
	if s.aborting() && !(mutexEnabler{s, addr}).Enabled(0) {
		// Teardown of a run in which the mutex was never released (a leaked
		// lock: the wedge has been recorded already). Entering Lock() would
		// block this goroutine non-durably and the bubble could never end;
		// the task ends here instead, running its deferred calls.
		runtime.Goexit()
	}
}
//go:norace
func (s *Sim) noteWaitedForLock(name string) {
	if len(s.lockWaiters) < 8 {
		s.lockWaiters = append(s.lockWaiters, name)
	}
}

// LockWaiters lists request tasks that had to wait for a gated mutex.
//
//go:norace
func (s *Sim) LockWaiters() []string { return s.lockWaiters }

func (s *Sim) Locked(addr any)   { s.setHeld(addr, true) }
func (s *Sim) Unlocked(addr any) { s.setHeld(addr, false) }

// ---- driver ----------------------------------------------------------------

//go:norace
func (s *Sim) appendStep(st Step) { s.trace = append(s.trace, st); s.step++ }

//go:norace
func (s *Sim) enabledSlots(buf []*Slot) ([]*Slot, int) {
	buf = buf[:0]
	total := 0
	for _, sl := range s.slots {
		if sl.enabledNow() {
			buf = append(buf, sl)
			total += sl.Weight
		}
	}
	return buf, total
}

// ParkedLabels lists what every parked slot is waiting for (for wedge reports).
//
//go:norace
func (s *Sim) ParkedLabels() []string {
	var out []string
	for _, sl := range s.slots {
		if sl.parked() {
			state := "blocked"
			if sl.en.Enabled(sl.op) {
				state = "enabled"
			}
			out = append(out, sl.Name+":"+sl.label+"("+state+")")
		}
	}
	return out
}

// StopReason says why Run returned.
type StopReason string

const (
	StopDone      StopReason = "done"      // the done predicate held
	StopQuiescent StopReason = "quiescent" // nothing enabled, clock pushed to the horizon, still nothing
	StopCap       StopReason = "stepcap"
)

// Run is the driver loop; it must be called on the bubble's root goroutine.
// done is evaluated at every quiescent point and must only read go:norace
// mirrors.
func (s *Sim) Run(done Enabler) StopReason {
	if s.start.IsZero() {
		s.start = time.Now()
	}
	var buf []*Slot
	idle := 0
	for s.StepNo() < s.StepCap {
		synctest.Wait()
		if done != nil && done.Enabled(0) {
			return StopDone
		}
		en, total := s.enabledSlots(buf)
		buf = en
		clockW := 0
		if c := s.Clock; c != nil && c.next < len(c.Jumps) && (c.Gate == nil || c.Gate.Enabled(0)) {
			clockW = c.Weight
			if clockW <= 0 {
				clockW = 1
			}
		}
		if len(en) == 0 && clockW == 0 && !s.idleNow() {
			// Tell gates that wait for "later" (armed faults) that later is now.
			s.setIdle(true)
			continue
		}
		if len(en) == 0 && clockW == 0 {
			// Nothing can move. Release whatever a timer would release
			// before calling it a wedge.
			jumps := [...]time.Duration{time.Millisecond, 10 * time.Millisecond, 100 * time.Millisecond, time.Second, 10 * time.Second, time.Minute, 5 * time.Minute, 10 * time.Minute}
			if idle >= len(jumps) || s.idleAdv >= s.Horizon {
				return StopQuiescent
			}
			d := jumps[idle]
			idle++
			s.idleAdv += d
			s.appendStep(Step{N: s.StepNo(), Slot: -1, Label: "idle-clock", Clock: d})
			time.Sleep(d)
			continue
		}
		idle = 0
		s.setIdle(false)
		var chosen *Slot
		if pol := s.Policy; pol != nil && len(en) > 0 {
			switch pol.Kind {
			case "sticky":
				if s.last != nil {
					for _, sl := range en {
						if sl == s.last {
							if s.Tape.Draw(4) != 3 {
								chosen = sl
							}
							break
						}
					}
				}
			case "prio":
				if s.Tape.Draw(8) != 7 {
					var best uint64
					for _, sl := range en {
						if p := s.priority(sl); chosen == nil || p > best {
							chosen, best = sl, p
						}
					}
				}
			}
		}
		pick := 0
		if chosen == nil {
			pick = s.Tape.Draw(total + clockW)
		}
		if chosen == nil && pick >= total {
			c := s.Clock
			d := c.Jumps[c.next]
			c.next++
			s.appendStep(Step{N: s.StepNo(), Slot: -1, Label: "clock", Clock: d})
			time.Sleep(d)
			continue
		}
		if chosen == nil {
			for _, sl := range en {
				if pick < sl.Weight {
					chosen = sl
					break
				}
				pick -= sl.Weight
			}
		}
		s.last = chosen
		if pol := s.Policy; pol != nil && pol.Kind == "prio" {
			for _, c := range pol.Changes {
				if c == s.StepNo() {
					s.demote(chosen)
				}
			}
		}
		g := chosen.take()
		s.appendStep(Step{N: s.StepNo(), Slot: chosen.ID, Label: chosen.curLabel()})
		g.grant()
		g.cond.Signal()
	}
	synctest.Wait()
	if done != nil && done.Enabled(0) {
		return StopDone
	}
	return StopCap
}

// priority of a slot under the "prio" policy: a hash of (seed, id) in the upper
// range, or — once demoted — a small number that shrinks with every demotion.
func (s *Sim) priority(sl *Slot) uint64 {
	if sl.ID < len(s.demoted) && s.demoted[sl.ID] != 0 {
		return s.demoted[sl.ID]
	}
	return Mix(s.Policy.Seed, uint64(sl.ID))|1<<63
}

func (s *Sim) demote(sl *Slot) {
	for len(s.demoted) <= sl.ID {
		s.demoted = append(s.demoted, 0)
	}
	if s.nextLow == 0 {
		s.nextLow = 1 << 40
	}
	s.nextLow--
	s.demoted[sl.ID] = s.nextLow
}

// Abort releases every parked task with a "torn down" result; used after the
// verdict of a run is known, to let goroutines unwind.
func (s *Sim) Abort() {
	s.setAbort()
	for i := 0; i < 1000; i++ {
		synctest.Wait()
		n := 0
		for _, sl := range s.slots {
			if g := sl.take(); g != nil {
				g.grant()
				g.cond.Signal()
				n++
			}
		}
		if n == 0 {
			return
		}
	}
}

// SlotName returns the name of a slot id (for trace rendering).
func (s *Sim) SlotName(id int) string {
	if id < 0 || id >= len(s.slots) {
		return "driver"
	}
	return s.slots[id].Name
}

// RenderTrace renders the trace for replay files and reports.
func (s *Sim) RenderTrace(max int) []string {
	tr := s.Trace()
	var out []string
	for _, n := range s.PreNotes() {
		out = append(out, "      # "+n)
	}
	for i, st := range tr {
		if max > 0 && i >= max {
			out = append(out, fmt.Sprintf("... %d more steps", len(tr)-i))
			break
		}
		line := fmt.Sprintf("%4d %s %s", st.N, s.SlotName(st.Slot), st.Label)
		if st.Clock > 0 {
			line += fmt.Sprintf(" +%v", st.Clock)
		}
		for _, n := range st.Notes {
			line += " | " + n
		}
		out = append(out, line)
	}
	return out
}

// TraceDigest hashes the schedule (slot, label, clock) and the notes.
func (s *Sim) TraceDigest() uint64 {
	h := uint64(14695981039346656037)
	add := func(str string) {
		for i := 0; i < len(str); i++ {
			h ^= uint64(str[i])
			h *= 1099511628211
		}
		h ^= 0xff
		h *= 1099511628211
	}
	for _, st := range s.Trace() {
		add(s.SlotName(st.Slot))
		if strings.HasPrefix(st.Label, "y:") {
			// which inserted yield a writer is at depends on Go's map
			// iteration order inside larking (range over file descriptors):
			// not part of what "same execution" means
			add("y")
		} else {
			add(st.Label)
		}
		add(st.Clock.String())
		for _, n := range st.Notes {
			add(n)
		}
	}
	return h
}

// ScheduleSignature hashes the ordered (slot name, label) sequence only.
func (s *Sim) ScheduleSignature() uint64 {
	h := uint64(14695981039346656037)
	for _, st := range s.Trace() {
		str := s.SlotName(st.Slot) + "/" + st.Label
		for i := 0; i < len(str); i++ {
			h ^= uint64(str[i])
			h *= 1099511628211
		}
	}
	return h
}
