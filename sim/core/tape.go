// Package core holds the simulator kernel: the choice tape, the race-invisible
// gates, the driver loop and the trace.
package core

// Tape is the sequence of integer choices that, together with a scenario,
// determines one simulated execution. In generation mode values come from a
// splitmix64 stream; in replay mode from a recorded list, with zeros once the
// list runs out (zero always means "first / simplest option").
//
// Every method that touches the tape's state is go:norace: the tape is shared
// by the driver and by whichever task holds the current grant, and that
// hand-off must stay invisible to the race detector (see gate.go).
type Tape struct {
	state    uint64
	replay   []uint32
	isReplay bool
	rec      []uint32
	limit    int
}

// Mix derives a 64-bit stream seed from a list of integers (splitmix finaliser).
func Mix(vs ...uint64) uint64 {
	h := uint64(0x9e3779b97f4a7c15)
	for _, v := range vs {
		h ^= v + 0x9e3779b97f4a7c15 + (h << 6) + (h >> 2)
		h = sm64(&h)
	}
	return h
}

func sm64(s *uint64) uint64 {
	*s += 0x9e3779b97f4a7c15
	z := *s
	z = (z ^ (z >> 30)) * 0xbf58476d1ce4e5b9
	z = (z ^ (z >> 27)) * 0x94d049bb133111eb
	return z ^ (z >> 31)
}

// HashString is FNV-1a, used to turn property ids into seed material.
func HashString(s string) uint64 {
	h := uint64(14695981039346656037)
	for i := 0; i < len(s); i++ {
		h ^= uint64(s[i])
		h *= 1099511628211
	}
	return h
}

func NewTape(seed uint64) *Tape {
	return &Tape{state: seed, rec: make([]uint32, 0, 4096), limit: 1 << 20}
}

func ReplayTape(vals []uint32) *Tape {
	return &Tape{replay: vals, isReplay: true, rec: make([]uint32, 0, len(vals)+64), limit: 1 << 20}
}

// Draw returns a value in [0,n). n<=1 consumes nothing.
//
//go:norace
func (t *Tape) Draw(n int) int {
	if n <= 1 {
		return 0
	}
	var v uint32
	if t.isReplay {
		if len(t.rec) < len(t.replay) {
			v = t.replay[len(t.rec)] % uint32(n)
		}
	} else {
		v = uint32(sm64(&t.state) % uint64(n))
	}
	if len(t.rec) < t.limit {
		t.rec = append(t.rec, v)
	}
	return int(v)
}

// Chance returns true with probability num/den; the zero choice is "false".
//
//go:norace
func (t *Tape) Chance(num, den int) bool {
	if num <= 0 {
		return false
	}
	return t.Draw(den) >= den-num
}

//go:norace
func (t *Tape) Recorded() []uint32 {
	out := make([]uint32, len(t.rec))
	copy(out, t.rec)
	return out
}

//go:norace
func (t *Tape) Len() int { return len(t.rec) }

// Rand is a plain deterministic generator for scenario generation (used before
// a run starts, by one goroutine; not shared).
type Rand struct{ s uint64 }

func NewRand(seed uint64) *Rand { return &Rand{s: seed} }
func (r *Rand) U64() uint64     { return sm64(&r.s) }
func (r *Rand) Intn(n int) int {
	if n <= 1 {
		return 0
	}
	return int(sm64(&r.s) % uint64(n))
}
func (r *Rand) Chance(num, den int) bool { return r.Intn(den) < num }
func (r *Rand) Pick(vs ...int) int       { return vs[r.Intn(len(vs))] }
func (r *Rand) PickS(vs ...string) string {
	return vs[r.Intn(len(vs))]
}
