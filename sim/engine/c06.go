package engine

import (
	"strings"
	"bytes"
	"encoding/json"
	"fmt"
	"io"
	"testing"

	"github.com/gobwas/ws"
	"google.golang.org/genproto/googleapis/api/httpbody"
	"google.golang.org/grpc/codes"
	"google.golang.org/protobuf/proto"
	"larking.io/api/testpb"

	"verif/sim/core"
)

// C06 — stream sequence fidelity: one streaming call per run on a transport x
// shape x codec x compression drawn per run, under a fragmenting / truncating /
// aborting transport.

func init() {
	engines["C06"] = runC06
	shrinkers["C06"] = shrinkMuxScenario
}

// payloadSizeFor finds a payload size whose encoded request message has
// exactly target bytes (or the closest below).
func payloadSizeFor(mi *methodInfo, codec string, target int) int {
	enc := func(n int) int { return len(marshalMsg(codec, mi.mkReq(make([]byte, n), ""))) }
	if enc(0) > target {
		return 0
	}
	lo, hi := 0, target // enc is monotone in n; find the largest n with enc(n) <= target
	for lo < hi {
		mid := (lo + hi + 1) / 2
		if enc(mid) <= target {
			lo = mid
		} else {
			hi = mid - 1
		}
	}
	return lo
}

var c06Transports = []struct{ proto, codec string }{
	{"grpc", "proto"}, {"grpc", "proto"}, {"grpc", "json"}, {"grpcweb", "proto"}, {"grpcweb", "json"}, {"grpcwebtext", "proto"},
	{"http", "json"}, {"http", "json"}, {"http", "proto"}, {"http", "proto"}, {"http", "body"}, {"http", "body"}, {"ws", "json"}, {"ws", "json"},
}

func genSizes(r *core.Rand, n, limit int, mi *methodInfo, codec string) []MsgSpec {
	var out []MsgSpec
	for i := 0; i < n; i++ {
		var size int
		switch r.Intn(10) {
		case 0:
			size = 0
		case 1:
			size = 1
		case 2:
			size = r.Pick(3, 4, 5, 7, 8)
		case 3:
			size = r.Pick(58, 59, 60, 63, 64, 65)
		case 4, 5:
			// exactly at the receive limit, or just below
			size = payloadSizeFor(mi, codec, limit) - r.Pick(0, 0, 1)
			if size < 0 {
				size = 0
			}
		case 6:
			size = r.Intn(limit/2 + 1)
		default:
			size = r.Intn(40)
		}
		if max := payloadSizeFor(mi, codec, limit); size > max {
			size = max // over-limit inputs are C08's subject
		}
		out = append(out, MsgSpec{Size: size, Seed: r.U64() >> 8, Unknown: size+32 < limit && r.Chance(1, 6)})
	}
	return out
}

func genKnobs(r *core.Rand) Knobs {
	k := Knobs{MaxRecv: r.Pick(16, 24, 64, 100, 256, 1000, 4096, 65536)}
	k.Stats = r.Chance(1, 3)
	k.UnaryInt = r.Chance(1, 4)
	k.StreamInt = r.Chance(1, 4)
	for i := r.Intn(3); i > 0; i-- {
		k.WarmBytes = append(k.WarmBytes, r.Pick(0, 1, 4, 5, 8, 64, 100, 1000, 5000))
	}
	for i := r.Intn(2); i > 0; i-- {
		k.WarmBufs = append(k.WarmBufs, r.Pick(0, 16, 512))
	}
	if r.Chance(1, 2) {
		k.ExtraCodecs = 1 + r.Intn(4)
	}
	return k
}

func genHandler(r *core.Rand, mi *methodInfo, nresp int, limit int, codec string) HandlerSpec {
	h := HandlerSpec{FailCode: int(codes.Aborted)}
	// final status
	if r.Chance(1, 3) {
		h.Code = 1 + r.Intn(16)
		h.Msg = r.PickS("boom", "no such thing", "a b c", "x", "100%25 done", "a%2Fb", "caf\u00e9 %41", "%",
			// (longer than the reason of a WebSocket close frame can be: 123 bytes)
			"the quota of this project for streaming calls has been used up for the current billing period; ask the owner of the project to raise it or wait until the first of next month")
	}
	for i := 0; i < nresp; i++ {
		size := r.Pick(0, 1, 5, 8, 20, 63, 64, 65, 200, 1000)
		// larking's gRPC writer applies the *receive* limit to outgoing
		// messages too; size limits are C08's subject, so stay below it.
		if max := limit - 16; size > max {
			size = max
			if codec == "json" {
				size = max / 2
			}
			if size < 0 {
				size = 0
			}
		}
		h.Resps = append(h.Resps, MsgSpec{Size: size, Seed: r.U64() >> 8})
	}
	pre := func() {
		if r.Chance(1, 4) {
			h.Steps = append(h.Steps, HStep{Op: "header"})
		}
		if r.Chance(1, 8) {
			h.Steps = append(h.Steps, HStep{Op: "sendheader"})
		}
	}
	post := func() {
		if r.Chance(1, 4) {
			h.Steps = append(h.Steps, HStep{Op: "trailer"})
		}
	}
	pre()
	switch mi.Shape() {
	case "client":
		h.Resps = h.Resps[:min(1, len(h.Resps))]
		h.Steps = append(h.Steps, HStep{Op: "recvall"}, HStep{Op: "sendall"})
	case "server":
		h.Steps = append(h.Steps, HStep{Op: "recv"}, HStep{Op: "recv"}, HStep{Op: "sendall"})
	default:
		switch r.Intn(5) {
		case 0:
			h.Steps = append(h.Steps, HStep{Op: "echo"}, HStep{Op: "sendall"})
		case 1:
			h.Steps = append(h.Steps, HStep{Op: "recvall"}, HStep{Op: "sendall"})
		case 2:
			h.Steps = append(h.Steps, HStep{Op: "sendall"}, HStep{Op: "recvall"})
		case 3:
			for i := 0; i < nresp; i++ {
				h.Steps = append(h.Steps, HStep{Op: []string{"recv", "send"}[r.Intn(2)]})
			}
			h.Steps = append(h.Steps, HStep{Op: "recvall"}, HStep{Op: "sendall"})
		case 4: // early return: the handler stops receiving
			for i := r.Intn(3); i > 0; i-- {
				h.Steps = append(h.Steps, HStep{Op: "recv"})
			}
			h.Steps = append(h.Steps, HStep{Op: "sendall"})
		}
	}
	post()
	return h
}

func genC06(r *core.Rand, run int) *MuxScenario {
	sc := &MuxScenario{Prop: "C06", Knobs: genKnobs(r)}
	tr := c06Transports[run%len(c06Transports)]
	sp := ReqSpec{ID: 1, Proto: tr.proto, Codec: tr.codec, Weight: 2}
	switch {
	case tr.proto == "ws":
		sp.Method = r.PickS("chat", "bidi")
		sp.PathVar = r.PickS("lobby", "a", "room-1", "x.y")
		sp.WSClose = r.PickS("normal", "normal", "normal", "none", "away")
	case tr.codec == "body":
		sp.Method = "files"
		sp.PathVar = r.PickS("cat.jpg", "a", "x-y_z.bin")
	default:
		sp.Method = r.PickS("client", "server", "bidi", "bidi")
		if tr.proto != "http" && r.Chance(1, 8) {
			sp.Method = "files"
		}
		if tr.codec == "json" && r.Chance(1, 4) {
			sp.Method = "chat" // string fields: quotes, backslashes, braces and multi-byte runes inside JSON strings
		}
		if tr.proto == "http" && r.Chance(1, 4) {
			sp.Method = "bidisel" // path variable + body selector on a streaming route
			sp.PathVar = r.PickS("a", "msg-1", "x.y_z")
		}
	}
	mi := methods[sp.Method]
	sp.Compress = tr.proto != "ws" && r.Chance(1, 4)
	if sp.Compress && sc.Knobs.MaxRecv < 256 {
		sc.Knobs.MaxRecv = 256 // even an empty gzip member has ~23 bytes
	}
	limit := sc.Knobs.MaxRecv
	if sp.Compress && tr.proto != "http" {
		limit -= 64 // the limit applies to the compressed frame; pattern payloads do not compress
	}
	n := r.Intn(9)
	if mi.Shape() == "server" {
		n = 1
	}
	sp.Msgs = genSizes(r, n, limit, mi, tr.codec)
	if tr.codec == "body" {
		// one upload whose length sits around multiples of the chunk size
		size := limit*r.Intn(4) + r.Pick(-1, 0, 0, 1)
		if r.Chance(1, 4) {
			size = r.Intn(3*limit + 1)
		}
		if size < 0 {
			size = 0
		}
		sp.Msgs = []MsgSpec{{Size: size, Seed: r.U64() >> 8}}
	}
	if tr.proto == "ws" {
		// text frames: keep below the limit irrelevant; sizes small/medium
		for i := range sp.Msgs {
			if sp.Msgs[i].Size > 300 {
				sp.Msgs[i].Size = 300
			}
		}
	}
	if sp.Compress && tr.proto != "http" {
		for i := range sp.Msgs {
			if r.Chance(1, 4) || sp.Msgs[i].Size == 0 && r.Chance(1, 2) {
				sp.Msgs[i].Plain = true
			}
		}
	}
	if tr.proto == "http" && tr.codec == "json" && r.Chance(1, 3) {
		sp.Sep = r.PickS("\n", " ", "\r\n")
		sp.SepEnd = r.Chance(1, 2)
		// the JSON stream codec counts separator bytes towards the limit
		max := payloadSizeFor(mi, tr.codec, limit-len(sp.Sep))
		for i := range sp.Msgs {
			if sp.Msgs[i].Size > max {
				sp.Msgs[i].Size = max
			}
		}
	}
	nresp := r.Intn(7)
	sp.Handler = genHandler(r, mi, nresp, limit, tr.codec)
	if tr.codec == "body" {
		// (the upload's media type: the chunker is chosen by the message type,
		// whatever the Content-Type says - also when a message codec is
		// registered for it)
		sp.BodyCT = r.PickS("", "", "text/plain", "application/octet-stream", "application/protobuf", "application/json")
		// HttpBody handlers: through Recv/Send or through the raw reader/writer
		h := HandlerSpec{FailCode: int(codes.Aborted), Resps: sp.Handler.Resps}
		if r.Chance(1, 2) {
			h.Steps = append(h.Steps, HStep{Op: "bodyreader"})
		} else {
			h.Steps = append(h.Steps, HStep{Op: "recvall"})
		}
		if r.Chance(1, 2) {
			h.Steps = append(h.Steps, HStep{Op: "bodywriter"})
		} else {
			h.Steps = append(h.Steps, HStep{Op: "sendall"})
		}
		sp.Handler = h
	}
	if tr.proto == "ws" {
		// WebSocket has no half-close: once the handler has read the client's
		// close frame the library has already answered it, so a conformant
		// client gets nothing sent afterwards. Only scripts whose sends all
		// precede the read of the close frame are judged.
		h := HandlerSpec{FailCode: sp.Handler.FailCode, Code: sp.Handler.Code, Msg: sp.Handler.Msg, Resps: sp.Handler.Resps}
		if r.Chance(1, 2) {
			h.Steps = []HStep{{Op: "echo"}}
			if len(h.Resps) > len(sp.Msgs) {
				h.Resps = h.Resps[:len(sp.Msgs)]
			}
		} else {
			h.Steps = []HStep{{Op: "sendall"}, {Op: "recvall"}}
		}
		sp.Handler = h
	}
	sp.PingPong = mi.Shape() == "bidi" && r.Chance(1, 5) && len(sp.Handler.Steps) > 0 && sp.Handler.Steps[len(sp.Handler.Steps)-1].Op != "bodywriter" && hasOp(sp.Handler, "echo")
	sp.ZeroReads = r.Chance(1, 4)
	sp.EOFData = r.Chance(1, 3)
	sp.Slash = tr.proto == "http" && r.Chance(1, 8)
	if r.Chance(1, 6) {
		sp.Window = r.Pick(1, 7, 64, 300)
	}
	// fault class
	switch f := r.Intn(20); {
	case f < 3:
		sp.Fault.Kind = "cut"
	case f < 4:
		sp.Fault.Kind = "readerr"
	case f < 6:
		sp.Fault.Kind = "abort"
	case f < 7:
		sp.Fault.Kind = "wbreak"
	}
	if (tr.proto == "http" || strings.HasPrefix(tr.proto, "grpcweb")) && r.Chance(1, 2) {
		sp.Fault.Err = "ueof" // HTTP/1.1: a broken body reads as io.ErrUnexpectedEOF
	}
	addZeroMessages(r, &sp)
	// a WebSocket handler with one goroutine per direction (what the pings
	// among the client's frames make the receiving one write meets what the
	// sending one writes on the same connection)
	if tr.proto == "ws" && sp.Fault.Kind == "" && sp.WSClose == "normal" && len(sp.Msgs) >= 1 && len(sp.Handler.Resps) >= 1 && r.Chance(1, 3) {
		sp.WSDuplex, sp.PingPong = true, false
		sp.Handler.Steps = []HStep{{Op: "duplex"}}
		if r.Chance(1, 2) {
			// (a frame larger than the usual 4 KiB of a buffered writer)
			sp.Handler.Resps[r.Intn(len(sp.Handler.Resps))].Size = r.Pick(4000, 5000, 9000)
		}
	}
	if tr.proto == "http" && r.Chance(1, 5) {
		sp.AcceptGzip = true
	}
	// an Accept header, possibly asking for the other representation than the
	// request's own (only where no error rendering is expected: how an error is
	// rendered under an Accept header is C05's subject)
	if tr.proto == "http" && tr.codec != "body" && sp.Handler.Code == 0 && sp.Fault.Kind == "" && r.Chance(1, 4) {
		sp.Accept = r.PickS("json", "proto", "other")
	}
	// a deadline that passes after the handler has made progress: the handler
	// sends its messages, outlives the grpc-timeout asleep, then returns; the
	// client (still connected) must be given a final status all the same
	if strings.HasPrefix(tr.proto, "grpc") && mi.ServerS && sp.Fault.Kind == "" && len(sp.Handler.Resps) > 0 && !sp.PingPong && r.Chance(1, 10) {
		if last := sp.Handler.Steps[len(sp.Handler.Steps)-1]; last.Op == "sendall" || last.Op == "trailer" {
			sp.Timeout = r.PickS("1S", "300m", "1500000u")
			sp.Handler.Steps = append(sp.Handler.Steps, HStep{Op: "sleep", N: 2000})
		}
	}
	if sp.Fault.Kind == "wbreak" {
		sp.PingPong = false // a client that waits for answers which can no longer arrive would wait forever
	}
	if sp.Fault.Kind == "cut" && tr.proto == "http" && !mi.ClientS {
		sp.Fault.Kind = "" // an unframed single message has no detectable truncation
	}
	if sp.Fault.Kind == "cut" && tr.proto == "ws" {
		sp.WSClose = "none" // the cut decides where the stream ends
	}
	// one frame that is not a message at all after the client's messages (not
	// gzip, gzip that fails late, zero bytes flagged compressed, bytes the codec
	// refuses): the handler gets the messages before it and then an error -
	// never a clean end of stream, never one more message
	if (tr.proto == "grpc" || tr.proto == "grpcweb") && tr.codec == "proto" && mi.ClientS && sp.Method != "files" && sp.Fault.Kind == "" && sp.Timeout == "" && r.Chance(1, 6) {
		sp.Poison, sp.Compress, sp.PingPong = true, true, false
		if len(sp.Msgs) == 0 || r.Chance(1, 3) {
			// (the variant is taken from the first message's seed)
			sp.Msgs = append([]MsgSpec{{Size: r.Pick(0, 10, 100), Seed: r.U64() >> 8}}, sp.Msgs...)
		}
		for i := range sp.Msgs {
			sp.Msgs[i].Over = false
		}
		sp.Handler = HandlerSpec{FailCode: int(codes.Aborted), PassErr: r.Chance(1, 2), Steps: []HStep{{Op: "recvall"}, {Op: "sendall"}}, Resps: []MsgSpec{{Size: 5, Seed: 1}}}
		if sc.Knobs.MaxRecv < 1024 {
			sc.Knobs.MaxRecv = 1024 // the frame has to pass the size check to be looked at
		}
	}
	sc.Reqs = []ReqSpec{sp}
	fitLimits(sc)
	// (after the limit has been fitted to everything else) one message that
	// inflates beyond the limit from a frame below it
	if strings.HasPrefix(tr.proto, "grpc") && sp.Compress && !sp.Poison && tr.codec == "proto" && sp.Method == "bidi" && len(sp.Msgs) > 0 && sp.Fault.Kind == "" && !sp.PingPong && sc.Knobs.MaxRecv >= 256 && r.Chance(1, 8) {
		k := r.Intn(len(sp.Msgs))
		sc.Reqs[0].Msgs[k] = MsgSpec{Size: sc.Knobs.MaxRecv + r.Pick(1, 7, 100, sc.Knobs.MaxRecv), Seed: r.U64() >> 8, Over: true}
	}
	return sc
}

// fitLimits raises the receive limit to the largest encoded response where the
// gRPC-family writer would otherwise refuse it (it applies the receive limit to
// outgoing messages; size limits are C08's subject).
func fitLimits(sc *MuxScenario) {
	for i := range sc.Reqs {
		sp := &sc.Reqs[i]
		mi := methods[sp.Method]
		if sp.Proto != "ws" && sp.Codec != "body" {
			for j, rq := range sp.Msgs {
				m := mi.mkReq(payloadFor(sp.payloadID(), j, 'C', rq), "")
				if rq.Unknown && sp.Codec == "proto" {
					withUnknown(m, rq.Seed)
				}
				n := len(marshalMsg(sp.Codec, m)) + len(sp.Sep)
				if sp.Compress && sp.Proto != "http" {
					n += 64
				}
				if n > sc.Knobs.MaxRecv {
					sc.Knobs.MaxRecv = n
				}
			}
		}
		if sp.Proto == "http" || sp.Proto == "ws" {
			continue
		}
		for j, rsp := range sp.Handler.Resps {
			m := mi.mkResp(payloadFor(sp.payloadID(), j, 'S', rsp))
			n := len(marshalMsg(sp.Codec, m))
			if sp.Compress {
				n += 64
			}
			if n > sc.Knobs.MaxRecv {
				sc.Knobs.MaxRecv = n
			}
		}
	}
}

func hasOp(h HandlerSpec, op string) bool {
	for _, s := range h.Steps {
		if s.Op == op {
			return true
		}
	}
	return false
}

func loadMuxScenario(rc *RunCtx, gen func(*core.Rand, int) *MuxScenario) *MuxScenario {
	if rc.Replay {
		sc := &MuxScenario{}
		if err := json.Unmarshal(rc.Scenario, sc); err != nil {
			panic(err)
		}
		return sc
	}
	sc := gen(core.NewRand(rc.ScenarioSeed()), rc.Run)
	// The scheduling policy is one more per-run knob (swarm style), drawn from
	// a stream of its own so that the scenarios themselves are what they were.
	pr := core.NewRand(core.Mix(rc.ScenarioSeed(), 0x9c4ed))
	switch pr.Intn(8) {
	case 4, 5:
		sc.Sched = &core.SchedPolicy{Kind: "sticky"}
	case 6, 7:
		sc.Sched = &core.SchedPolicy{Kind: "prio", Seed: pr.U64() >> 1}
		for k := pr.Intn(4); k > 0; k-- {
			sc.Sched.Changes = append(sc.Sched.Changes, pr.Intn(pr.Pick(20, 60, 200)))
		}
	}
	return sc
}

func runC06(t *testing.T, rc *RunCtx) *RunResult {
	sc := loadMuxScenario(rc, genC06)
	tape := rc.NewTape()
	mr := runMuxScenario(t, sc, tape)
	res := &RunResult{}
	mr.fill(res, tape)
	rs := mr.reqs[0]
	res.Shape = mr.contextKey(rs) + fmt.Sprintf("/n=%d/resp=%d/lim=%d", len(rs.spec.Msgs), len(rs.spec.Handler.Resps), sc.Knobs.MaxRecv)
	res.Nontrivial = res.Counters[cShortRead]+res.Counters[cOneByteRead]+res.Counters[cEOFWithData] > 0 || rs.spec.Fault.Kind != ""
	if rs.spec.Poison {
		res.Nontrivial = true
		res.Violation = oraclePoisoned("C06", mr, rs, &res.Counters)
		return res
	}
	res.Violation = oracleStream("C06", mr, rs, &res.Counters)
	return res
}

// oraclePoisoned judges a request stream that carries, after the client's
// messages, one frame that is not a message: the handler's receive log is the
// messages before it, in order, and then an error. A clean end of stream there
// would tell the handler that the client was done; one more message would be a
// fabricated one.
func oraclePoisoned(prop string, mr *muxRun, rs *reqState, cnt *[core.NumCounters]int) *Violation {
	if v := mr.globalInvariants(prop); v != nil {
		return v
	}
	sp := rs.spec
	l := rs.log()
	ctx := mr.contextKey(rs) + "/poison"
	if !l.Entered {
		return violationf(prop, "not-dispatched", ctx, "request %d: the handler was never entered", sp.ID)
	}
	if len(l.Recv) > len(sp.Msgs) {
		return violationf(prop, "recv-extra-message", ctx, "request %d: the handler received %d messages, the client sent %d and then a frame that is not a message", sp.ID, len(l.Recv), len(sp.Msgs))
	}
	for i, m := range l.Recv {
		if want := rs.clientMsg(i); !proto.Equal(m, want) {
			return violationf(prop, "recv-mismatch", ctx, "request %d: message %d reached the handler as %s, sent as %s", sp.ID, i, msgPreview(m), msgPreview(want))
		}
	}
	if l.RecvEOF {
		return violationf(prop, "undecodable-frame-as-eof", ctx, "request %d: after %d of %d messages the handler was told the stream had ended cleanly (io.EOF); the client had sent a frame that is not a message (wire tail %s) and had not half-closed before it", sp.ID, len(l.Recv), len(sp.Msgs), hexPreview(rs.wire[rs.bounds[len(rs.bounds)-1]:], 24))
	}
	if l.RecvErr == nil {
		return violationf(prop, "recv-missing-error", ctx, "request %d: the handler received %d messages and no error though the stream carried a frame that is not a message", sp.ID, len(l.Recv))
	}
	if len(l.Recv) < len(sp.Msgs) {
		return violationf(prop, "recv-missing-message", ctx, "request %d: the handler received %d of the %d messages in front of the undecodable frame, then %v", sp.ID, len(l.Recv), len(sp.Msgs), l.RecvErr)
	}
	cnt[cUndecodableJudged]++
	return nil
}

// oracleStream judges one streaming call against the reference model "the two
// message lists and the fault plan" (DESIGN §6.1).
func oracleStream(prop string, mr *muxRun, rs *reqState, cnt *[core.NumCounters]int) *Violation {
	if v := mr.globalInvariants(prop); v != nil {
		return v
	}
	sp := rs.spec
	l := rs.log()
	ctx := mr.contextKey(rs)
	resp := rs.q.response()
	fault := sp.Fault.Kind
	if sp.Proto == "ws" && sp.WSClose != "none" && fault == "readerr" && rs.end == len(rs.wire) {
		fault = "" // the close frame was delivered before the transport broke: a clean end
	}
	fail := func(rule, format string, args ...any) *Violation {
		return violationf(prop, rule, ctx, "request %d: "+format, append([]any{sp.ID}, args...)...)
	}
	if !l.Entered {
		if fault == "abort" || fault == "wbreak" {
			return nil // the client left (or the connection broke) before dispatch
		}
		if sp.Backend != "" && (fault == "cut" || fault == "readerr") {
			return nil // the proxy reads the first message before it calls the backend: broken there, the call fails at once
		}
		if rs.method.Shape() == "unary" && (fault == "cut" || fault == "readerr") {
			return nil // a unary request is decoded before the handler is called: a broken body is refused there
		}
		if sp.Proto == "http" && sp.Compress && (fault == "cut" || fault == "readerr") && resp.Status >= 400 {
			return nil // the gzip header itself was cut: refused before dispatch with an error
		}
		return fail("not-dispatched", "handler never entered; HTTP status %d, header %v, body %q", resp.Status, resp.Header, string(resp.Body[:min(len(resp.Body), 200)]))
	}
	recvFinished := l.RecvEOF || l.RecvErr != nil || l.BodyReadErr != nil
	httpBody := sp.Proto == "http" && sp.Codec == "body"

	// ---- (a) what the handler received ---------------------------------------
	if httpBody {
		if v := oracleHTTPBodyRecv(prop, mr, rs, fail, cnt); v != nil {
			return v
		}
	} else {
		nComplete := 0
		for _, b := range rs.bounds {
			if b <= rs.end {
				nComplete++
			}
		}
		if rs.httpReq != nil && rs.httpReq.Method == "GET" && sp.Proto == "http" {
			nComplete = len(sp.Msgs) // no body: the message is reconstructed from the path alone
		}
		overIdx := -1
		for i, m := range sp.Msgs {
			if m.Over && overIdx < 0 {
				overIdx = i
			}
		}
		compressedCut := sp.Proto == "http" && sp.Compress && (fault == "cut" || fault == "readerr") && rs.end < len(rs.wire)
		if sp.Proto == "http" && sp.Compress && !compressedCut {
			nComplete = len(sp.Msgs)
		}
		if compressedCut {
			nComplete = len(sp.Msgs) // upper bound only
		}
		if sp.Proto == "http" && !rs.method.ClientS && fault == "readerr" {
			nComplete = 0 // an unframed message is only complete at a clean EOF
			compressedCut = false
		}
		if fault == "abort" {
			// messages wholly inside what the client had sent
			nComplete = 0
			for _, b := range rs.bounds {
				if b <= rs.sent {
					nComplete++
				}
			}
			if sp.Proto == "http" && sp.Compress {
				nComplete = len(sp.Msgs)
			}
		}
		for i, got := range l.Recv {
			if i >= nComplete {
				return fail("recv-extra-message", "handler received message #%d (%s) but only %d client messages lie wholly inside the %d delivered bytes (of %d)", i, msgPreview(got), nComplete, rs.end, len(rs.wire))
			}
			if want := rs.expectedReq(i); !proto.Equal(got, want) {
				return fail("recv-mismatch", "handler message #%d differs: got %s want %s", i, msgPreview(got), msgPreview(want))
			}
			if i < len(sp.Msgs) && sp.Msgs[i].Zero {
				cnt[cEmptyMsg]++ // a message of zero bytes was delivered as a message
			}
		}
		if recvFinished {
			switch {
			case sp.Proto == "http" && sp.Compress && fault == "readerr" && rs.end == len(rs.wire):
				// the whole gzip stream arrived and then the transport failed:
				// whether the decompressor touches the failing reader again
				// before or after the last message is its own business
			case fault == "abort", fault == "wbreak" && sp.Proto == "ws":
				// prefix property only (checked above); on WebSocket reading a
				// close frame makes the library write the close reply, which
				// fails once writes are broken. One thing more: a client that
				// went away without having half-closed has not ended its
				// stream - the handler (local or behind the proxy) must not be
				// told it has
				if fault == "abort" && rs.abortedAt >= 0 && rs.ioBrokenAt >= 0 && sp.Proto != "ws" && rs.method.ClientS && l.RecvEOF && l.RecvErr == nil && rs.q.inPendingAt != -1 && !(sp.Proto == "http" && sp.Compress) {
					return fail("abort-as-eof", "the client went away at step %d without having half-closed (%d of %d bytes sent), yet the handler's Recv ended with a clean io.EOF after %d messages", rs.ioBrokenAt, rs.sent, len(rs.wire), len(l.Recv))
				}
			case overIdx >= 0 && fault == "" && l.RecvErr != nil && l.RecvErr != io.EOF:
				// the over-limit message was refused (C08's subject): everything
				// before it must have arrived, nothing of it or after it
				cnt[cOverLimitRefused]++
				if len(l.Recv) != overIdx {
					return fail("recv-missing-message", "message #%d is larger than the receive limit once inflated and was refused (%v), but the handler had received %d messages before that", overIdx, l.RecvErr, len(l.Recv))
				}
			case compressedCut:
				if l.RecvErr == nil {
					return fail("truncation-as-eof", "compressed request body cut at %d of %d bytes ended with a clean EOF after %d messages", rs.end, len(rs.wire), len(l.Recv))
				}
			case sp.Proto == "ws" && sp.WSClose != "normal" && !rs.cutMid && fault != "readerr":
				// connection ended at a frame boundary without a normal close
				// frame: EOF or error are both acceptable, all messages required
				if len(l.Recv) != nComplete {
					return fail("recv-missing-message", "handler received %d of %d complete messages before the stream ended (err=%v)", len(l.Recv), nComplete, l.RecvErr)
				}
			case rs.cutMid || fault == "readerr":
				// (through the proxy the cancellation of the backend call may
				// overtake messages still in flight: a prefix, then the error)
				if len(l.Recv) != nComplete && l != &rs.blog {
					return fail("recv-missing-message", "handler received %d messages, %d were completely delivered before the stream broke at byte %d (err=%v)", len(l.Recv), nComplete, rs.end, l.RecvErr)
				}
				if l.RecvErr == nil || l.RecvErr == io.EOF {
					return fail("truncation-as-eof", "request stream broke at byte %d of %d (inside a message or by transport error) but the handler saw a clean end-of-stream after %d messages", rs.end, len(rs.wire), len(l.Recv))
				}
			default:
				if len(l.Recv) != nComplete {
					return fail("recv-missing-message", "handler received %d of %d messages before end-of-stream (err=%v)", len(l.Recv), nComplete, l.RecvErr)
				}
				if l.RecvErr != nil {
					return fail("recv-error-at-clean-eof", "all %d messages delivered and the stream ended cleanly at a message boundary, but Recv returned %v instead of io.EOF", nComplete, l.RecvErr)
				}
			}
		}
	}

	// ---- (b) what the client received ------------------------------------------
	cv := rs.decodeResponse(resp)
	writeFault := fault == "abort" || fault == "wbreak"
	viaBackend := l == &rs.blog // the script ran on a backend behind the proxy (not on a local handler of the same method)
	// (a gzip body cut anywhere short of its end is a broken stream too)
	cutBroken := rs.cutMid || sp.Proto == "http" && sp.Compress && rs.end < len(rs.wire)
	for _, m := range sp.Msgs {
		if m.Over && l.RecvErr != nil {
			writeFault = true // the call was failed over its size: what the client is told is C08's and C05's subject
		}
	}
	if viaBackend && (fault == "readerr" || fault == "cut" && cutBroken) {
		// the request side of a proxied stream broke: the proxy ends the
		// backend call, so what the backend still manages to send and which
		// status the client sees are not prescribed
		writeFault = true
	}
	if cv.Err != nil && !writeFault {
		return fail("response-undecodable", "%v", cv.Err)
	}
	if l.SendErr != nil && !writeFault {
		return fail("send-error", "Send #%d failed without any write fault: %v", l.SendErrAt, l.SendErr)
	}
	if l.HelperErr != nil && !writeFault {
		return fail("helper-error", "%v", l.HelperErr)
	}
	bodyWriter := hasOp(sp.Handler, "bodywriter")
	if sp.Proto == "http" && rs.method.httpBodyResp {
		// raw passthrough: concatenation of the sent payloads
		var want []byte
		for i := 0; i < l.Sent; i++ {
			want = append(want, payloadFor(sp.payloadID(), i, 'S', sp.Handler.Resps[i])...)
		}
		got := resp.Body
		if !writeFault {
			if l.Returned && l.RetCode != codes.OK {
				if !bytes.HasPrefix(got, want) {
					return fail("response-mismatch", "HttpBody response: %d bytes do not start with the %d bytes the handler sent", len(got), len(want))
				}
			} else if !bytes.Equal(got, want) {
				return fail("response-mismatch", "HttpBody response: client got %d bytes, handler sent %d bytes in %d messages (bodywriter=%v); got %s want %s", len(got), len(want), l.Sent, bodyWriter, hexPreview(got, 32), hexPreview(want, 32))
			}
		} else if !bytes.HasPrefix(want, got) && !bytes.HasPrefix(got, want) {
			return fail("response-mismatch", "HttpBody response under write fault is not a prefix of what the handler sent")
		}
	} else if writeFault && sp.Proto == "http" && !rs.method.ServerS {
		// an unframed single response cut short by the broken connection
		// cannot be told from a complete one: not judged
	} else {
		for i, got := range cv.Msgs {
			if i >= len(sp.Handler.Resps) {
				return fail("response-extra-message", "client decoded message #%d but the handler only has %d responses", i, len(sp.Handler.Resps))
			}
			want := rs.method.mkResp(payloadFor(sp.payloadID(), i, 'S', sp.Handler.Resps[i]))
			if !proto.Equal(got, want) {
				return fail("response-mismatch", "client message #%d differs: got %s want %s", i, msgPreview(got), msgPreview(want))
			}
			if sp.Handler.Resps[i].Zero {
				cnt[cEmptyMsg]++
			}
		}
		wantMsgs := l.Sent
		if viaBackend && !rs.method.ServerS && l.Returned && l.RetCode != codes.OK {
			// gRPC semantics of a direct call: a unary-response RPC that ends
			// with a non-OK status yields the status only
			wantMsgs = 0
		}
		if sp.Proto == "http" && !rs.method.ServerS && l.Returned && l.RetCode != codes.OK {
			wantMsgs = len(cv.Msgs) // unframed body followed by the error rendering: not judged
		}
		if !writeFault {
			if len(cv.Msgs) != wantMsgs {
				return fail("response-count", "handler sent %d messages successfully (client should see %d), client decoded %d (trailing %d bytes: %s)", l.Sent, wantMsgs, len(cv.Msgs), len(cv.Trailing), hexPreview(cv.Trailing, 32))
			}
			okStatus := l.Returned && l.RetCode == codes.OK
			if len(cv.Trailing) > 0 && (sp.Proto != "http" || okStatus) {
				return fail("response-trailing-bytes", "%d undecodable bytes after the last message: %s", len(cv.Trailing), hexPreview(cv.Trailing, 48))
			}
			// HTTP has no trailer for the status: once the response has
			// started, the rendering of the error after the last message is
			// the only way the client learns that the call failed, so it has
			// to be there and to say how (code and message; its exact shape
			// and the HTTP status code are C05's subject)
			if sp.Proto == "http" && rs.method.ServerS && !rs.method.httpBodyResp && l.Returned && l.RetCode != codes.OK {
				var e struct {
					Code    int    `json:"code"`
					Message string `json:"message"`
				}
				if err := json.Unmarshal(cv.Trailing, &e); err != nil || e.Code != int(l.RetCode) || e.Message != l.RetMsg {
					return fail("http-stream-error-lost", "the handler failed with %d %q after %d streamed messages; what follows the messages is %q (want a rendering of that status)", int(l.RetCode), l.RetMsg, l.Sent, string(cv.Trailing[:min(len(cv.Trailing), 160)]))
				}
			}
		} else if len(cv.Msgs) > l.Sent+1 {
			return fail("response-count", "client decoded %d messages, handler sent %d", len(cv.Msgs), l.Sent)
		}
	}
	// what the handler handed to Send stays the handler's: larking must not
	// have modified it (or parked it in a pool for others to overwrite)
	for i, m := range l.SentMsgs {
		var wp []byte
		if l.SentIdx[i] < len(sp.Handler.Resps) {
			wp = payloadFor(sp.payloadID(), l.SentIdx[i], 'S', sp.Handler.Resps[l.SentIdx[i]])
		}
		if want := rs.method.mkResp(wp); !proto.Equal(m, want) {
			return fail("handler-owned-message-modified", "the response message #%d that the handler passed to Send was changed afterwards: now %s, was %s", l.SentIdx[i], msgPreview(m), msgPreview(want))
		}
	}
	// final status
	if l.Returned && !writeFault {
		switch sp.Proto {
		case "grpc", "grpcweb", "grpcwebtext":
			cnt[cTrailerChecked]++
			if !cv.Status.Present {
				return fail("status-missing", "no final status reached the client (handler returned %v %q); header %v trailer %v", l.RetCode, l.RetMsg, resp.Header, resp.Trailer)
			}
			if !cv.StatusLast {
				return fail("status-before-messages", "the final status did not come after the last message")
			}
			if sp.Timeout != "" && cv.Status.Code == int(codes.DeadlineExceeded) {
				// the handler outlived the call's deadline: reporting that
				// instead of what the handler returned afterwards is as good
				cnt[cDeadlinePassedStatus]++
			} else if cv.Status.Code != int(l.RetCode) || cv.Status.Message != l.RetMsg {
				return fail("status-mismatch", "client saw status %d %q, handler returned %d %q", cv.Status.Code, cv.Status.Message, int(l.RetCode), l.RetMsg)
			} else if sp.Timeout != "" {
				cnt[cDeadlinePassedStatus]++
			}
		case "ws":
			if cv.HTTPStatus == 101 {
				cnt[cWSCloseFrame]++
				if cv.WSClose == nil {
					return fail("status-missing", "no close frame after the handler returned %v", l.RetCode)
				}
				normal := cv.WSClose.Empty || cv.WSClose.Code == ws.StatusNormalClosure
				if l.RetCode == codes.OK && !normal {
					return fail("status-mismatch", "handler returned OK but the close frame carries code %d %q", cv.WSClose.Code, cv.WSClose.Reason)
				}
				if l.RetCode != codes.OK && normal {
					return fail("status-mismatch", "handler returned %v %q but the close frame is a normal closure", l.RetCode, l.RetMsg)
				}
			}
		}
	}
	return nil
}

func msgPreview(m proto.Message) string {
	s := fmt.Sprintf("%T%v", m, m)
	if len(s) > 160 {
		s = s[:160] + "..."
	}
	return s
}

// oracleHTTPBodyRecv: HttpBody chunk streaming over HTTP (§6.1 (c)).
func oracleHTTPBodyRecv(prop string, mr *muxRun, rs *reqState, fail func(string, string, ...any) *Violation, cnt *[core.NumCounters]int) *Violation {
	sp := rs.spec
	l := rs.log()
	limit := mr.sc.Knobs.MaxRecv
	upload := rs.wire
	if sp.Compress {
		upload = nil
		for i := range sp.Msgs {
			upload = append(upload, payloadFor(sp.payloadID(), i, 'C', sp.Msgs[i])...)
		}
	}
	delivered := upload
	fault := sp.Fault.Kind
	partial := false
	if fault == "cut" || fault == "readerr" {
		if sp.Compress {
			partial = rs.end < len(rs.wire)
		} else {
			delivered = upload[:rs.end]
		}
	}
	if fault == "abort" {
		partial = true
	}
	var got []byte
	usedReader := hasOp(sp.Handler, "bodyreader")
	if usedReader {
		if len(l.Recv) != 1 {
			return fail("bodyreader-first-message", "AsHTTPBodyReader path recorded %d first messages (err %v)", len(l.Recv), l.BodyReadErr)
		}
		first, _ := l.Recv[0].(*testpb.UploadFileRequest)
		if first.GetFilename() != sp.PathVar || first.GetFile().GetContentType() != sp.bodyCT() || len(first.GetFile().GetData()) != 0 {
			return fail("recv-mismatch", "AsHTTPBodyReader first message: %s", msgPreview(l.Recv[0]))
		}
		got = l.BodyRead
	} else {
		for i, m := range l.Recv {
			u, _ := m.(*testpb.UploadFileRequest)
			var want *testpb.UploadFileRequest
			_ = want
			if i == 0 && u.GetFilename() != sp.PathVar {
				return fail("recv-mismatch", "first chunk message has filename %q, want %q", u.GetFilename(), sp.PathVar)
			}
			if i > 0 && u.GetFilename() != "" {
				return fail("recv-mismatch", "chunk message #%d carries filename %q again", i, u.GetFilename())
			}
			if u.GetFile().GetContentType() != sp.bodyCT() {
				return fail("recv-mismatch", "chunk message #%d has content type %q", i, u.GetFile().GetContentType())
			}
			data := u.GetFile().GetData()
			if i < len(l.Recv)-1 && len(data) != limit {
				return fail("chunk-size", "chunk #%d of %d has %d bytes, the chunk size is %d", i, len(l.Recv), len(data), limit)
			}
			if len(data) > limit {
				return fail("chunk-size", "chunk #%d has %d bytes, above the chunk size %d", i, len(data), limit)
			}
			if len(data) == limit {
				cnt[cChunkBoundary]++
			}
			got = append(got, data...)
		}
	}
	finished := l.RecvEOF || l.RecvErr != nil || l.BodyReadErr != nil
	if !bytes.HasPrefix(delivered, got) {
		return fail("recv-mismatch", "the %d bytes the handler received are not a prefix of the %d uploaded bytes", len(got), len(delivered))
	}
	if finished && !partial {
		if fault == "readerr" {
			if l.RecvErr == nil && l.BodyReadErr == nil {
				return fail("truncation-as-eof", "transport error after %d bytes surfaced as a clean end of the upload", rs.end)
			}
		} else {
			if l.RecvErr != nil || l.BodyReadErr != nil {
				return fail("recv-error-at-clean-eof", "upload of %d bytes ended cleanly but the handler saw %v / %v", len(delivered), l.RecvErr, l.BodyReadErr)
			}
			if len(got) != len(delivered) {
				return fail("lost-bytes", "upload of %d bytes (chunk size %d): handler received %d bytes in %d chunks before the clean end of stream", len(delivered), limit, len(got), len(l.Recv))
			}
		}
	}
	if finished && partial && sp.Compress && fault != "abort" {
		if l.RecvErr == nil && l.BodyReadErr == nil {
			return fail("truncation-as-eof", "compressed upload cut at %d of %d bytes ended cleanly", rs.end, len(rs.wire))
		}
	}
	return nil
}

var _ = httpbody.File_google_api_httpbody_proto

// ---- structural shrinking for mux scenarios ----------------------------------------

func shrinkMuxScenario(raw json.RawMessage) []json.RawMessage {
	var sc MuxScenario
	if json.Unmarshal(raw, &sc) != nil {
		return nil
	}
	var out []json.RawMessage
	emit := func(c *MuxScenario) {
		b, _ := json.Marshal(c)
		out = append(out, b)
	}
	clone := func() *MuxScenario {
		var c MuxScenario
		b, _ := json.Marshal(&sc)
		json.Unmarshal(b, &c)
		return &c
	}
	if len(sc.Reqs) > 1 {
		for i := range sc.Reqs {
			c := clone()
			c.Reqs = append(c.Reqs[:i], c.Reqs[i+1:]...)
			emit(c)
		}
	}
	if sc.Sched != nil {
		c := clone()
		c.Sched = nil
		emit(c)
	}
	for i := range sc.Reqs {
		r := sc.Reqs[i]
		for j := range r.Msgs {
			if len(r.Msgs) > 0 && methods[r.Method].Shape() != "server" {
				c := clone()
				c.Reqs[i].Msgs = append(c.Reqs[i].Msgs[:j], c.Reqs[i].Msgs[j+1:]...)
				emit(c)
			}
			if r.Msgs[j].Size > 0 {
				c := clone()
				c.Reqs[i].Msgs[j].Size /= 2
				emit(c)
				c = clone()
				c.Reqs[i].Msgs[j].Size--
				emit(c)
			}
		}
		for j := range r.Handler.Resps {
			c := clone()
			c.Reqs[i].Handler.Resps = append(c.Reqs[i].Handler.Resps[:j], c.Reqs[i].Handler.Resps[j+1:]...)
			emit(c)
			if r.Handler.Resps[j].Size > 0 {
				c := clone()
				c.Reqs[i].Handler.Resps[j].Size /= 2
				emit(c)
			}
		}
		for j, st := range r.Handler.Steps {
			if st.Op == "header" || st.Op == "sendheader" || st.Op == "trailer" || st.Op == "sleep" {
				c := clone()
				c.Reqs[i].Handler.Steps = append(c.Reqs[i].Handler.Steps[:j], c.Reqs[i].Handler.Steps[j+1:]...)
				emit(c)
			}
		}
		mods := []func(*ReqSpec) bool{
			func(q *ReqSpec) bool { ok := q.ZeroReads; q.ZeroReads = false; return ok },
			func(q *ReqSpec) bool { ok := q.EOFData; q.EOFData = false; return ok },
			func(q *ReqSpec) bool { ok := q.Window != 0; q.Window = 0; return ok },
			func(q *ReqSpec) bool { ok := q.PingPong; q.PingPong = false; return ok },
			func(q *ReqSpec) bool { ok := q.Fault.Kind != ""; q.Fault.Kind = ""; return ok },
			func(q *ReqSpec) bool { ok := q.Compress; q.Compress = false; return ok },
			func(q *ReqSpec) bool { ok := q.Sep != ""; q.Sep = ""; return ok },
			func(q *ReqSpec) bool { ok := q.Handler.Code != 0; q.Handler.Code = 0; q.Handler.Msg = ""; return ok },
			func(q *ReqSpec) bool { ok := len(q.MD) > 0; q.MD = nil; return ok },
		}
		for _, f := range mods {
			c := clone()
			if f(&c.Reqs[i]) {
				emit(c)
			}
		}
	}
	kmods := []func(*Knobs) bool{
		func(k *Knobs) bool { ok := k.Stats; k.Stats = false; return ok },
		func(k *Knobs) bool { ok := k.UnaryInt; k.UnaryInt = false; return ok },
		func(k *Knobs) bool { ok := k.StreamInt; k.StreamInt = false; return ok },
		func(k *Knobs) bool { ok := len(k.WarmBytes) > 0; k.WarmBytes = nil; return ok },
		func(k *Knobs) bool { ok := len(k.WarmBufs) > 0; k.WarmBufs = nil; return ok },
	}
	for _, f := range kmods {
		c := clone()
		if f(&c.Knobs) {
			emit(c)
		}
	}
	return out
}
