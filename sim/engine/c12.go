package engine

import (
	"fmt"
	"sort"
	"strings"
	"testing"
	"time"

	"github.com/anishathalye/porcupine"

	"verif/sim/core"
)

// C12 — registration is atomic with respect to concurrent serving
// (registrysim, concurrent): registrars, request tasks and a snapshot monitor
// interleaved by the tape at the yields inserted into larking's writers and
// readers. Oracles: linearizability against the routing model (porcupine),
// snapshot immutability, the race detector (race build), bounded liveness.

func init() {
	engines["C12"] = runC12
	shrinkers["C12"] = shrinkRegScenario
}

func genC12(r *core.Rand, run int) *MuxScenario {
	sc := &MuxScenario{Prop: "C12", Knobs: Knobs{MaxRecv: 65536}, Local: []string{"-"}, SkipRegister: true, NoDefaultRules: true, Rules: registryRules}
	sc.Backends = append([]BackendSpec(nil), c11Backends...)
	for i := range sc.Backends {
		sc.Backends[i].Verbose = (run+i)%2 == 1 // two reflection implementations
		sc.Backends[i].DepsFirst = (run+i)%4 == 3 // ... the second one in either order of its answers' files
	}
	// what is already there when the concurrency starts
	switch r.Intn(4) {
	case 0:
		sc.Pre = []RegOp{{Kind: "regsvc", Target: "local", Service: tsvc}}
	case 1:
		sc.Pre = []RegOp{{Kind: "regconn", Target: "b1"}}
	case 2:
		sc.Pre = []RegOp{{Kind: "regsvc", Target: "local", Service: svcFiles}, {Kind: "regconn", Target: "b2"}}
	}
	// each registrar owns its targets (so that a deliberately broken
	// reflection stream or a changed service list only affects its owner)
	nreg := 1 + r.Intn(3)
	owned := [][]string{{"local", "b1"}, {"b2"}, {"b3"}}
	if nreg == 1 {
		owned = [][]string{{"local", "b1", "b2", "b3"}}
	} else if nreg == 2 {
		owned = [][]string{{"local", "b1"}, {"b2", "b3"}}
	}
	for g := 0; g < nreg; g++ {
		var ops []RegOp
		for k := 1 + r.Intn(4); k > 0; k-- {
			tgt := owned[g][r.Intn(len(owned[g]))]
			var op RegOp
			if tgt == "local" {
				op = RegOp{Kind: "regsvc", Target: "local", Service: r.PickS(tsvc, svcFiles, svcMessaging)}
			} else {
				switch r.Intn(8) {
				case 0, 1, 2:
					op = RegOp{Kind: "regconn", Target: tgt}
				case 3, 4:
					op = RegOp{Kind: "drop", Target: tgt}
				case 5:
					op = RegOp{Kind: "regconn", Target: tgt, Adv: [][]string{{tsvc}, {svcFiles}, {tsvc, svcMessaging}, {}, {svcFiles, svcMessaging}, {tsvc, svcFiles, svcMessaging}, {svcMessaging, svcFiles}}[r.Intn(7)]}
				case 6:
					op = RegOp{Kind: "regconn", Target: tgt, Fail: r.PickS("refl:0", "refl:1", "refl:2", "refl:3", "refl:2c", "refl:3c", "refl:0e", "refl:1e", "refl:end")}
				case 7:
					op = RegOp{Kind: "regconn", Target: tgt, Fail: r.PickS("cancel", "cancel-mid", "cancel-mid")}
				}
			}
			ops = append(ops, op)
		}
		sc.Registrars = append(sc.Registrars, ops)
	}
	// concurrent requests: unary probes on every protocol plus short streams
	nreq := 2 + r.Intn(6)
	for i := 0; i < nreq; i++ {
		pk := probeKinds[r.Intn(len(probeKinds))]
		sp := mkProbe(r, i+1, pk)
		sp.Weight = 1 + r.Intn(3)
		if sp.Raw != nil {
			sc.Reqs = append(sc.Reqs, sp)
			continue
		}
		switch r.Intn(6) {
		case 0: // a short bidi stream over gRPC or gRPC-web
			sp.Proto, sp.Codec, sp.Method, sp.Route = r.PickS("grpc", "grpcweb"), "proto", "bidi", ""
			sp.Msgs = append(sp.Msgs, MsgSpec{Size: 9, Seed: r.U64() >> 8})
			sp.Handler.Steps = []HStep{{Op: "echo"}, {Op: "sendall"}}
		case 1:
			sp.Proto, sp.Codec = "grpcweb", "proto"
			sp.Route = ""
		}
		sc.Reqs = append(sc.Reqs, sp)
	}
	// the same route asked for again by a later request (what one request
	// leaves behind on the Mux, another one finds)
	if r.Chance(1, 2) {
		var raws []int
		for i, q := range sc.Reqs {
			if q.Raw != nil {
				raws = append(raws, i)
			}
		}
		for k := r.Intn(3); k >= 0 && len(raws) > 0; k-- {
			dup := sc.Reqs[raws[r.Intn(len(raws))]]
			dup.ID = len(sc.Reqs) + 1
			dup.Weight = 1
			raw := *dup.Raw
			dup.Raw = &raw
			sc.Reqs = append(sc.Reqs, dup)
		}
	}
	sc.Monitor = 2 + r.Intn(6)
	return sc
}

// ---- porcupine model ---------------------------------------------------------------

type linInput struct {
	Kind    string // reg | drop | req
	Op      RegOp
	Adv     []string
	Service string // req: the service of the method
	Label   string
}

type linOutput struct {
	OK      bool   // reg: succeeded
	Dropped bool   // drop
	Served  string // req
	Unimpl  bool
	Unavail bool
}

func parseLive(key string) liveSet {
	l := liveSet{}
	if key == "" {
		return l
	}
	for _, p := range strings.Split(key, ";") {
		i := strings.IndexByte(p, '=')
		l.add(p[:i], p[i+1:])
	}
	return l
}

var routingModel = porcupine.Model{
	Init: func() interface{} { return "" },
	Step: func(state, input, output interface{}) (bool, interface{}) {
		st := parseLive(state.(string))
		in := input.(linInput)
		out := output.(linOutput)
		switch in.Kind {
		case "reg":
			if !out.OK {
				return true, state // a failed registration changes nothing
			}
			st.apply(&regResult{Op: in.Op, AdvAt: in.Adv})
			return true, st.key()
		case "drop":
			if out.Dropped != st.has(in.Op.Target) {
				return false, state
			}
			st.dropTarget(in.Op.Target)
			return true, st.key()
		case "req":
			ts := st.targets(in.Service)
			switch {
			case out.Served != "":
				for _, t := range ts {
					if t == out.Served {
						return true, state
					}
				}
				return false, state
			case out.Unimpl:
				return len(ts) == 0, state
			}
			return true, state // Unavailable etc.: judged outside the model
		}
		return false, state
	},
	Equal: func(a, b interface{}) bool { return a.(string) == b.(string) },
	DescribeOperation: func(input, output interface{}) string {
		in := input.(linInput)
		out := output.(linOutput)
		return fmt.Sprintf("%s -> %+v", in.Label, out)
	},
}

func runC12(t *testing.T, rc *RunCtx) *RunResult {
	sc := loadMuxScenario(rc, genC12)
	tape := rc.NewTape()
	mr := runMuxScenario(t, sc, tape)
	res := &RunResult{Extra: map[string]int{}}
	mr.fill(res, tape)
	var hs []string
	for _, ops := range sc.Registrars {
		hs = append(hs, historyString(ops))
	}
	res.Shape = fmt.Sprintf("pre=%s|%s|req=%d", historyString(sc.Pre), strings.Join(hs, "|"), len(sc.Reqs))
	res.Nontrivial = true
	res.Violation = oracleRegistryConcurrent("C12", mr, res)
	return res
}

func oracleRegistryConcurrent(prop string, mr *muxRun, res *RunResult) *Violation {
	cnt := &res.Counters
	all := append([]*registrar{}, mr.registrars...)
	if mr.pre != nil {
		all = append(all, mr.pre)
	}
	for _, g := range all {
		for _, rr := range g.res {
			if rr.Panic != nil {
				return violationf(prop, "registration-panic", rr.Op.Kind+"@"+larkingFrame(rr.Stack), "registrar %d operation %d (%s) panicked: %v\n%s", g.idx, rr.Idx, historyString([]RegOp{rr.Op}), rr.Panic, trimStack(rr.Stack))
			}
		}
	}
	if v := mr.globalInvariants(prop); v != nil {
		return v
	}
	// snapshot immutability
	if m := mr.monitor; m != nil {
		m.recheck()
		cnt[cSnapshotRecheck] += m.rechecks
		if m.changed != "" {
			return violationf(prop, "published-snapshot-mutated", "monitor", "%s", m.changed)
		}
	}
	// reach probes from the trace: a reader step between two steps of one writer operation
	countRegistryInterleavings(mr, cnt)

	// build the history
	var ops []porcupine.Operation
	client := 0
	dead := map[string]bool{}
	add := func(in linInput, out linOutput, call, ret int) {
		ops = append(ops, porcupine.Operation{ClientId: client, Input: in, Output: out, Call: int64(2 * call), Return: int64(2*ret + 1)})
	}
	if mr.pre != nil {
		for i, rr := range mr.pre.res {
			if rr.Err != nil {
				return violationf(prop, "safe-registration-failed", rr.Op.Kind, "initial %s returned %v", historyString([]RegOp{rr.Op}), rr.Err)
			}
			in := linInput{Kind: "reg", Op: rr.Op, Adv: rr.AdvAt, Label: "pre:" + historyString([]RegOp{rr.Op})}
			// strictly before everything else, in order
			ops = append(ops, porcupine.Operation{ClientId: client, Input: in, Output: linOutput{OK: true}, Call: int64(-1000 + 2*i), Return: int64(-1000 + 2*i + 1)})
		}
		client++
	}
	for _, g := range mr.registrars {
		for _, rr := range g.res {
			if !rr.Done {
				return violationf(prop, "operation-never-returned", rr.Op.Kind, "registrar %d operation %s did not return", g.idx, historyString([]RegOp{rr.Op}))
			}
			label := fmt.Sprintf("reg%d:%s", g.idx, historyString([]RegOp{rr.Op}))
			switch rr.Op.Kind {
			case "drop":
				add(linInput{Kind: "drop", Op: rr.Op, Label: label}, linOutput{Dropped: rr.Dropped}, rr.Invoke, rr.Return)
			default:
				mustFail := rr.Op.Fail == "cancel" || rr.Op.Fail == "dead" || strings.HasPrefix(rr.Op.Fail, "refl:") && (reflJ(rr.Op.Fail) == "0" || reflJ(rr.Op.Fail) == "1" && len(rr.AdvAt) > 0)
				mayFail := strings.HasPrefix(rr.Op.Fail, "refl:") && !mustFail || rr.Op.Fail == "cancel-mid"
				if rr.Err != nil {
					cnt[cFailedRegistration]++
				}
				if mustFail && rr.Err == nil {
					return violationf(prop, "broken-registration-accepted", rr.Op.Kind, "%s returned nil", label)
				}
				if !mustFail && !mayFail && rr.Err != nil {
					return violationf(prop, "safe-registration-failed", rr.Op.Kind, "%s returned %v", label, rr.Err)
				}
				add(linInput{Kind: "reg", Op: rr.Op, Adv: rr.AdvAt, Label: label}, linOutput{OK: rr.Err == nil}, rr.Invoke, rr.Return)
			}
		}
		client++
	}
	for _, rs := range mr.reqs {
		out := rs.probeOutcome()
		label := fmt.Sprintf("r%d:%s %s", rs.spec.ID, rs.spec.Proto, rs.method.Full())
		if out.Other != "" {
			return violationf(prop, "request-error", rs.spec.Proto+"/"+rs.method.Key, "%s failed during concurrent registration: %s", label, out.Other)
		}
		if out.Unavail && !dead[out.Served] {
			return violationf(prop, "request-error", rs.spec.Proto+"/"+rs.method.Key, "%s answered Unavailable though no backend was killed", label)
		}
		if out.Served != "" {
			cnt[cProbeServed]++
			if rs.spec.Raw == nil {
				if v := oracleStream(prop, mr, rs, cnt); v != nil {
					return v
				}
			}
		} else {
			cnt[cProbeUnimplemented]++
		}
		add(linInput{Kind: "req", Service: rs.method.Service, Label: label}, linOutput{Served: out.Served, Unimpl: out.Unimpl, Unavail: out.Unavail}, rs.invokeStep, rs.returnStep)
		client++
	}
	result, info := porcupine.CheckOperationsVerbose(routingModel, ops, 10*time.Second)
	switch result {
	case porcupine.Ok:
		cnt[cLinOK]++
	case porcupine.Unknown:
		cnt[cLinUnknown]++ // inconclusive: counted, never reported
	case porcupine.Illegal:
		cnt[cLinIllegal]++
		_ = info
		var lines []string
		sort.Slice(ops, func(i, j int) bool { return ops[i].Call < ops[j].Call })
		for _, op := range ops {
			lines = append(lines, fmt.Sprintf("[%d,%d] %s", op.Call, op.Return, routingModel.DescribeOperation(op.Input, op.Output)))
		}
		return violationf(prop, "not-linearizable", "history", "no sequential order of these operations is consistent with the routing model (a route visible before its registration completed, a lost update, a stale route after a drop, or a request refused while its method stayed registered):\n%s", strings.Join(lines, "\n"))
	}
	return nil
}

// countRegistryInterleavings derives reach probes from the schedule: a request
// step between two steps of one registrar operation, and a registrar parked at
// the lock gate while another one was inside.
func countRegistryInterleavings(mr *muxRun, cnt *[core.NumCounters]int) {
	inOp := map[string]bool{}
	sawReader := map[string]bool{}
	for _, st := range mr.sim.Trace() {
		name := mr.sim.SlotName(st.Slot)
		if strings.HasPrefix(name, "reg") {
			if strings.HasPrefix(st.Label, "reg.") {
				inOp[name] = true
				sawReader[name] = false
				continue
			}
			if st.Label == "lock" {
				for other, in := range inOp {
					if other != name && in {
						cnt[cSecondWriterAtLockGate]++
						break
					}
				}
			}
			if inOp[name] && sawReader[name] {
				cnt[cReaderBetweenWriterSteps]++
				sawReader[name] = false
			}
			if strings.HasSuffix(st.Label, "after-store") {
				inOp[name] = false
			}
			continue
		}
		if strings.HasPrefix(name, "r") && strings.HasSuffix(name, ".h") {
			for w, in := range inOp {
				if in {
					sawReader[w] = true
				}
			}
		}
	}
}
