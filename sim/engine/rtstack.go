package engine

import "runtime"

func runtimeStack(buf []byte) int { return runtime.Stack(buf, false) }
