package engine

import (
	"fmt"
	"io"
	"strings"

	"github.com/gobwas/ws"
	"google.golang.org/grpc"
	"google.golang.org/protobuf/encoding/protojson"
	"google.golang.org/protobuf/proto"
	"larking.io/larking"

	"verif/sim/wire"
)

func asHTTPBodyReader(stream grpc.ServerStream, msg proto.Message) (io.Reader, error) {
	return larking.AsHTTPBodyReader(stream, msg)
}
func asHTTPBodyWriter(stream grpc.ServerStream, msg proto.Message) (io.Writer, error) {
	return larking.AsHTTPBodyWriter(stream, msg)
}

// clientView is what the client's own decoder makes of the response bytes.
type clientView struct {
	Msgs       []proto.Message
	Raw        [][]byte
	Status     wire.Status // gRPC / gRPC-web final status
	StatusLast bool        // the status came after every message (trailer frame last / HTTP trailers)
	WSClose    *wsClose
	Trailing   []byte // bytes after the last complete message that are not a message
	Err        error  // the response is not decodable as the protocol prescribes
	HTTPStatus int
}

type wsClose struct {
	Code   ws.StatusCode
	Reason string
	Empty  bool
}

func unmarshalResp(codec string, rs *reqState, b []byte) (proto.Message, error) {
	m := rs.method.newResp()
	if codec == "json" {
		return m, protojson.Unmarshal(b, m)
	}
	return m, proto.Unmarshal(b, m)
}

func (rs *reqState) decodeResponse(resp Response) *clientView {
	cv := &clientView{HTTPStatus: resp.Status}
	sp := rs.spec
	add := func(codec string, raw []byte) bool {
		m, err := unmarshalResp(codec, rs, raw)
		if err != nil {
			cv.Err = fmt.Errorf("response message %d does not unmarshal (%s): %v; bytes %s", len(cv.Msgs), codec, err, hexPreview(raw, 48))
			return false
		}
		cv.Msgs = append(cv.Msgs, m)
		cv.Raw = append(cv.Raw, raw)
		return true
	}
	switch sp.Proto {
	case "grpc":
		frames, rest, err := wire.ParseGRPCFrames(resp.Body)
		if err != nil {
			cv.Err = err
			return cv
		}
		cv.Trailing = rest
		for _, f := range frames {
			if f.Flag > 1 {
				cv.Err = fmt.Errorf("gRPC frame %d has flag byte %#x", len(cv.Msgs), f.Flag)
				return cv
			}
			if f.Flag == 1 && resp.Header.Get("Grpc-Encoding") == "" {
				// (grpc-go: "compressed flag set with identity or empty encoding")
				cv.Err = fmt.Errorf("gRPC frame %d is flagged compressed but the response declares no grpc-encoding (header %v)", len(cv.Msgs), resp.Header)
				return cv
			}
			if !add(sp.Codec, f.Payload) {
				return cv
			}
		}
		if st := wire.StatusFromHeader(resp.Trailer); st.Present {
			cv.Status, cv.StatusLast = st, true
		} else if st := wire.StatusFromHeader(resp.Header); st.Present {
			cv.Status, cv.StatusLast = st, len(frames) == 0 // trailers-only is only legal without messages
		}
	case "grpcweb", "grpcwebtext":
		body := resp.Body
		if sp.Proto == "grpcwebtext" {
			dec, err := wire.Base64DecodeStream(body)
			if err != nil {
				cv.Err = fmt.Errorf("grpc-web-text body is not valid base64: %v", err)
				return cv
			}
			body = dec
		}
		frames, rest, err := wire.ParseGRPCFrames(body)
		if err != nil {
			cv.Err = err
			return cv
		}
		cv.Trailing = rest
		for i, f := range frames {
			if f.Flag&0x80 != 0 {
				h, err := wire.ParseWebTrailer(f.Payload)
				if err != nil {
					cv.Err = fmt.Errorf("trailer frame: %v", err)
					return cv
				}
				cv.Status = wire.StatusFromHeader(h)
				cv.StatusLast = i == len(frames)-1
				continue
			}
			if cv.Status.Present {
				cv.Err = fmt.Errorf("message frame after the trailer frame")
				return cv
			}
			if f.Flag&1 == 1 && resp.Header.Get("Grpc-Encoding") == "" {
				cv.Err = fmt.Errorf("gRPC-web frame %d is flagged compressed but the response declares no grpc-encoding (header %v)", len(cv.Msgs), resp.Header)
				return cv
			}
			if !add(sp.Codec, f.Payload) {
				return cv
			}
		}
		if !cv.Status.Present {
			// trailers-only responses carry the status in the HTTP headers
			if st := wire.StatusFromHeader(resp.Header); st.Present {
				cv.Status, cv.StatusLast = st, len(cv.Msgs) == 0
			}
		}
	case "http":
		body := resp.Body
		// a client that said it accepts gzip takes the response for what its
		// Content-Encoding says it is
		if sp.AcceptGzip && resp.Header.Get("Content-Encoding") == "gzip" {
			plain, err := wire.Gunzip(body)
			if err != nil {
				cv.Err = fmt.Errorf("the response is labelled Content-Encoding: gzip and does not inflate (%v); %d bytes: %s", err, len(body), hexPreview(body, 48))
				return cv
			}
			body = plain
		}
		// a client that sent an Accept header decodes by what the response
		// says it is
		httpCodec := sp.Codec
		if sp.Accept != "" && resp.Status == 200 {
			switch ct := resp.Header.Get("Content-Type"); {
			case ct == "application/json":
				httpCodec = "json"
			case ct == "application/protobuf", ct == "application/octet-stream":
				httpCodec = "proto"
			case ct == "" && len(body) == 0:
				httpCodec = sp.Accept // nothing was written at all
				if sp.Accept == "other" {
					httpCodec = sp.Codec
				}
			default:
				cv.Err = fmt.Errorf("the request asked for %s; the response is labelled Content-Type %q", sp.Accept, ct)
				return cv
			}
			if sp.Accept == "other" && httpCodec != sp.Codec {
				// nothing the client accepts is on offer: the representation of
				// the response is the request's own, a function of this request
				cv.Err = fmt.Errorf("the request came as %s with an Accept header that matches nothing on offer (text/html); the response is labelled Content-Type %q - not this request's representation", sp.Codec, resp.Header.Get("Content-Type"))
				return cv
			}
		}
		if !rs.method.ServerS {
			// single message, the whole body; when the handler failed the body
			// also holds the error rendering, which has no framing to split on
			if rs.log().Returned && rs.log().RetCode != 0 {
				cv.Trailing = body
				for i := 0; i < rs.log().Sent; i++ {
					cv.Msgs = append(cv.Msgs, rs.method.mkResp(payloadFor(sp.payloadID(), i, 'S', sp.Handler.Resps[i]))) // not judged
				}
				return cv
			}
			if resp.Status == 200 && len(body) > 0 || resp.Status == 200 && rs.log().Sent > 0 {
				if sp.Codec == "body" || rs.method.httpBodyResp {
					cv.Raw = append(cv.Raw, body)
				} else {
					add(httpCodec, body)
				}
			} else {
				cv.Trailing = body
			}
			return cv
		}
		switch {
		case rs.method.Key == "files":
			cv.Raw = append(cv.Raw, body) // raw passthrough: one blob
		case httpCodec == "json":
			objs, rest := wire.SplitJSONObjects(body)
			cv.Trailing = rest
			for _, o := range objs {
				m, err := unmarshalResp("json", rs, o)
				if err != nil {
					// not a response message: e.g. the rendering of a handler error
					cv.Trailing = append(append([]byte{}, o...), rest...)
					break
				}
				cv.Msgs = append(cv.Msgs, m)
				cv.Raw = append(cv.Raw, o)
			}
		default:
			// varint-delimited messages, one at a time, so that whatever is
			// not one (the rendering of an error) is kept byte for byte
			off := 0
			for off < len(body) {
				msgs, _ := wire.ParseVarintDelimited(body[off:])
				if len(msgs) == 0 {
					break
				}
				p := msgs[0]
				m, err := unmarshalResp("proto", rs, p)
				if err != nil {
					break
				}
				cv.Msgs = append(cv.Msgs, m)
				cv.Raw = append(cv.Raw, p)
				off += len(wire.AppendVarintDelimited(nil, p))
			}
			cv.Trailing = body[off:]
			if len(cv.Trailing) == 0 {
				cv.Trailing = nil
			}
		}
	case "ws":
		status, _, rest, ok := wire.SplitHTTPResponseHead(resp.Body)
		if !ok {
			cv.Err = fmt.Errorf("no HTTP response head on the hijacked connection: %q", strings.TrimSpace(string(resp.Body[:min(len(resp.Body), 80)])))
			return cv
		}
		cv.HTTPStatus = status
		if status != 101 {
			cv.Trailing = rest
			return cv
		}
		frames, tail, err := wire.ParseWSServerFrames(rest)
		if err != nil {
			cv.Err = err
			return cv
		}
		cv.Trailing = tail
		for _, f := range frames {
			switch f.Op {
			case ws.OpText, ws.OpBinary:
				if cv.WSClose != nil {
					cv.Err = fmt.Errorf("data frame after the close frame")
					return cv
				}
				if !f.Fin {
					cv.Err = fmt.Errorf("fragmented server frame")
					return cv
				}
				if !add("json", f.Payload) {
					return cv
				}
			case ws.OpClose:
				if len(f.Payload) > 125 {
					// RFC 6455, 5.5: a control frame's payload is 125 bytes at
					// most; a conformant client fails the connection here and
					// never learns the status
					cv.Err = fmt.Errorf("close frame with a payload of %d bytes: control frames carry 125 at most (status code and up to 123 bytes of reason)", len(f.Payload))
					return cv
				}
				c := &wsClose{Empty: len(f.Payload) == 0}
				if len(f.Payload) >= 2 {
					c.Code = ws.StatusCode(uint16(f.Payload[0])<<8 | uint16(f.Payload[1]))
					c.Reason = string(f.Payload[2:])
				}
				cv.WSClose = c
			}
		}
	}
	return cv
}
