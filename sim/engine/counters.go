package engine

// Counter ids for faults that actually fired and for reach probes. A fixed
// table (not a map) because the counters are bumped from go:norace code.
const (
	cShortRead = iota
	cOneByteRead
	cEOFWithData
	cZeroRead
	cReadError
	cCleanCut
	cCutMidMessage
	cAbort
	cWriteError
	cWriteStall
	cHandlerFail
	cBackendFail
	cBackendKill
	cRegFail
	cClockAdvance
	cSlowHandler
	cSplitVarint
	cSplitJSONEscape
	cSplitGRPCHeader
	cCarryNonEmpty
	cOverLimit
	cAtLimit
	cHugePrefix
	cNonMinimalPrefix
	cFreshBuffer
	cReaderBetweenWriterSteps
	cSecondWriterAtLockGate
	cAbortWhileRecvParked
	cAbortWhileSendParked
	cAbortBeforeFirst
	cAbortAfterReturn
	cPoolReuseAcrossRequests
	cPumpAliveAfterHandler
	cDeadlineExact
	cDeadlineOverflow
	cMalformedTimeout
	cUnjudgedTimeout
	cStallTaken
	cInterleavedRequests
	cSnapshotRecheck
	cFailedRegistration
	cDropKnown
	cDropUnknown
	cReRegister
	cSecondBackend
	cProbeServed
	cProbeUnimplemented
	cLinOK
	cLinIllegal
	cLinUnknown
	cHalfClosePropagated
	cBackendFailBeforeFirst
	cBackendFailMid
	cBackendFailAfterHalfClose
	cClientStillSending
	cMsgAtLimit
	cEmptyMsg
	cCompressedMsg
	cWSCloseFrame
	cWSCutNoClose
	cTrailerChecked
	cBase64Tail
	cChunkBoundary
	cDirectCompare
	cStarOverlap
	cProbeSkipped
	cReferenceCompared
	cDeadlinePassedStatus
	cOverLimitRefused
	cDuplexAfterCtxEnd
	cUndecodablePassedOn
	cDensePartition
	cUndecodableJudged
	numCounters
)

var counterNames = [...]string{
	cShortRead: "fault.short_read", cOneByteRead: "fault.one_byte_read", cEOFWithData: "fault.eof_with_data",
	cZeroRead: "fault.zero_read", cReadError: "fault.read_error", cCleanCut: "fault.clean_eof_at_boundary",
	cCutMidMessage: "fault.clean_eof_mid_message", cAbort: "fault.abort", cWriteError: "fault.write_error",
	cWriteStall: "fault.write_stall", cHandlerFail: "fault.handler_fail", cBackendFail: "fault.backend_fail",
	cBackendKill: "fault.backend_kill", cRegFail: "fault.reg_fail", cClockAdvance: "fault.clock_advance",
	cSlowHandler: "fault.slow_handler",
	cSplitVarint: "reach.read_split_inside_varint", cSplitJSONEscape: "reach.read_split_inside_json_escape_or_rune",
	cSplitGRPCHeader: "reach.read_split_inside_grpc_header", cCarryNonEmpty: "reach.carry_over_non_empty",
	cOverLimit: "reach.message_over_limit", cAtLimit: "reach.message_exactly_at_limit", cHugePrefix: "reach.prefix_overflows_int",
	cNonMinimalPrefix: "reach.non_minimal_prefix", cFreshBuffer: "reach.fresh_buffer_between_calls",
	cReaderBetweenWriterSteps: "reach.reader_ran_between_writer_steps", cSecondWriterAtLockGate: "reach.second_writer_at_lock_gate",
	cAbortWhileRecvParked: "reach.abort_while_handler_in_recv", cAbortWhileSendParked: "reach.abort_while_handler_in_send",
	cAbortBeforeFirst: "reach.abort_before_first_message", cAbortAfterReturn: "reach.abort_after_handler_returned",
	cPoolReuseAcrossRequests: "reach.pooled_buffer_reused_by_other_request", cPumpAliveAfterHandler: "reach.pump_alive_after_handler",
	cDeadlineExact: "reach.deadline_checked_exact", cDeadlineOverflow: "reach.deadline_overflow_value",
	cMalformedTimeout: "reach.malformed_timeout", cUnjudgedTimeout: "reach.unjudged_signed_timeout", cStallTaken: "fault.read_stall",
	cInterleavedRequests: "reach.requests_interleaved", cSnapshotRecheck: "reach.snapshot_refingerprinted",
	cFailedRegistration: "reach.failed_registration", cDropKnown: "reach.drop_known", cDropUnknown: "reach.drop_unknown",
	cReRegister: "reach.reregister_unchanged", cSecondBackend: "reach.second_backend_same_service",
	cProbeServed: "reach.probe_served", cProbeUnimplemented: "reach.probe_unimplemented",
	cLinOK: "porcupine.ok", cLinIllegal: "porcupine.illegal", cLinUnknown: "porcupine.unknown",
	cHalfClosePropagated: "reach.half_close_propagated", cBackendFailBeforeFirst: "reach.backend_fail_before_first_response",
	cBackendFailMid: "reach.backend_fail_after_k_responses", cBackendFailAfterHalfClose: "reach.backend_fail_after_half_close",
	cClientStillSending: "reach.handler_returned_while_client_sending", cMsgAtLimit: "reach.stream_message_at_limit",
	cEmptyMsg: "reach.empty_message", cCompressedMsg: "reach.compressed_message", cWSCloseFrame: "reach.ws_close_frame",
	cWSCutNoClose: "reach.ws_cut_without_close", cTrailerChecked: "reach.final_status_checked", cBase64Tail: "reach.base64_tail_nonzero",
	cChunkBoundary: "reach.httpbody_chunk_boundary", cDirectCompare: "reach.direct_backend_comparison",
	cStarOverlap: "reach.kind_star_overlap_unpredicted", cProbeSkipped: "reach.probe_not_judged_after_unpredicted_verdict",
	cReferenceCompared:    "reach.final_state_compared_with_fresh_registration",
	cDeadlinePassedStatus: "reach.final_status_after_deadline_passed_mid_call",
	cOverLimitRefused:     "reach.inflated_message_over_limit_refused_whole",
	cDuplexAfterCtxEnd:    "reach.two_goroutine_handler_both_called_after_context_end",
	cUndecodablePassedOn:  "reach.undecodable_message_error_returned_as_is",
	cDensePartition:       "reach.short_stream_partition_taken_from_run_index",
}

func counterName(i int) string {
	if i < len(counterNames) && counterNames[i] != "" {
		return counterNames[i]
	}
	return "counter." + itoa(i)
}

func itoa(i int) string {
	if i == 0 {
		return "0"
	}
	neg := i < 0
	if neg {
		i = -i
	}
	var b [20]byte
	p := len(b)
	for i > 0 {
		p--
		b[p] = byte('0' + i%10)
		i /= 10
	}
	if neg {
		p--
		b[p] = '-'
	}
	return string(b[p:])
}
