package engine

import (
	"sort"
	"fmt"
	"regexp"
	"strconv"
	"strings"
	"testing"

	"google.golang.org/genproto/googleapis/api/annotations"
	"google.golang.org/protobuf/proto"
	"google.golang.org/protobuf/reflect/protoreflect"
	"google.golang.org/protobuf/reflect/protoregistry"

	"verif/sim/core"
)

// C16 (history part) — registration accepts valid rules, rejects invalid ones
// and is failure-atomic: histories of RegisterService calls on a mux whose
// service config carries generated rules (valid ones from a conservative
// subset of the template grammar, invalid ones by mutations that are invalid
// under any reading), with probe requests instantiated from the templates
// after every registration.

func init() {
	engines["C16"] = runC16
	shrinkers["C16"] = shrinkRegScenario
}

// RuleSpec is one generated service-config HTTP rule.
type RuleSpec struct {
	Selector   string            `json:"selector"` // fully qualified method
	Verb       string            `json:"verb"`     // get | put | post | delete | patch | custom:<kind>
	ProbeVerb  string            `json:"probe_verb,omitempty"` // kind "*": the verb its probe uses
	Template   string            `json:"template"`
	Body       string            `json:"body,omitempty"`
	RespBody   string            `json:"resp_body,omitempty"`
	Additional []RuleSpec        `json:"additional,omitempty"`
	Invalid    string            `json:"invalid,omitempty"` // why the reference recogniser rejects it ("" = valid)
	Conflict   bool              `json:"conflict,omitempty"` // deliberately the same verb+template as an earlier rule of another method
	Long       bool              `json:"long,omitempty"`     // well-formed but beyond larking's documented token budget: accepted or refused with an error, never a panic
	StarRun    bool              `json:"star_run,omitempty"` // a segment of three or more stars: malformed under the strict reading, a literal under the RFC 3986 one - either verdict (Long is set too); NegPath must not reach the method under either
	NegPath    string            `json:"neg_path,omitempty"`
	Wild       bool              `json:"wild,omitempty"`     // the rule selects its method as "pkg.Service.*" (services with one method only: the same selection as the exact name)
	Path       string            `json:"path,omitempty"`    // a path instantiated from the template
	Want       map[string]string `json:"want,omitempty"`    // field path -> text the path binds to it
}

func (r *RuleSpec) httpRule() *annotations.HttpRule {
	out := &annotations.HttpRule{Selector: r.Selector, Body: r.Body, ResponseBody: r.RespBody}
	if r.Wild {
		out.Selector = serviceOf(r.Selector) + ".*"
	}
	switch {
	case r.Verb == "get":
		out.Pattern = &annotations.HttpRule_Get{Get: r.Template}
	case r.Verb == "put":
		out.Pattern = &annotations.HttpRule_Put{Put: r.Template}
	case r.Verb == "post":
		out.Pattern = &annotations.HttpRule_Post{Post: r.Template}
	case r.Verb == "delete":
		out.Pattern = &annotations.HttpRule_Delete{Delete: r.Template}
	case r.Verb == "patch":
		out.Pattern = &annotations.HttpRule_Patch{Patch: r.Template}
	case r.Verb == "custom-nil":
		out.Pattern = &annotations.HttpRule_Custom{} // a custom pattern without its message
	case r.Verb == "none":
		// no pattern at all
	default:
		out.Pattern = &annotations.HttpRule_Custom{Custom: &annotations.CustomHttpPattern{Kind: strings.TrimPrefix(r.Verb, "custom:"), Path: r.Template}}
	}
	for i := range r.Additional {
		out.AdditionalBindings = append(out.AdditionalBindings, r.Additional[i].httpRule())
	}
	return out
}

func (r *RuleSpec) httpMethod() string {
	if strings.HasPrefix(r.Verb, "custom:") {
		return strings.ToUpper(strings.TrimPrefix(r.Verb, "custom:"))
	}
	return strings.ToUpper(r.Verb)
}

// ---- the methods rules are attached to -----------------------------------------------

type c16Method struct {
	Service, Name string
	Body          []string // valid body selectors besides "*" and ""
}

var c16Methods = []c16Method{
	{svcMessaging, "Action", nil},
	{svcMessaging, "VariableOne", nil},
	{svcMessaging, "UpdateMessageBody", nil},
	{svcMessaging, "GetMessageTwo", []string{"sub"}},
	{svcMessaging, "UpdateMessage", []string{"message"}},
	{svcMessaging, "CreateBook", []string{"book"}},
	{svcMessaging, "GetShelf", nil},
	{tsvc, "UnaryCall", []string{"payload", "response_status"}},
	{tsvc, "EmptyCall", nil},
	{svcFiles, "UploadDownload", []string{"file"}},
	// two methods with the same short name in different services
	{"larking.testpb.Complex", "Check", nil},
	{"larking.testpb.WellKnown", "Check", nil},
}

func methodDesc(service, name string) protoreflect.MethodDescriptor {
	d, err := protoregistry.GlobalFiles.FindDescriptorByName(protoreflect.FullName(service))
	if err != nil {
		panic(err)
	}
	return d.(protoreflect.ServiceDescriptor).Methods().ByName(protoreflect.Name(name))
}

// bindable lists the field paths of a message that a template variable may
// bind: singular string, integer, bool and enum fields, one level of nesting.
type bindField struct {
	Path  string
	Kind  protoreflect.Kind
	Enum  string // a value name for enums
	Multi bool   // may take a multi-segment pattern (strings only)
}

func bindable(md protoreflect.MessageDescriptor, prefix string, depth int) []bindField {
	var out []bindField
	fs := md.Fields()
	for i := 0; i < fs.Len(); i++ {
		f := fs.Get(i)
		if f.IsList() || f.IsMap() || f.ContainingOneof() != nil {
			continue
		}
		p := prefix + string(f.Name())
		switch f.Kind() {
		case protoreflect.StringKind:
			out = append(out, bindField{Path: p, Kind: f.Kind(), Multi: true})
		case protoreflect.Int32Kind, protoreflect.Int64Kind, protoreflect.BoolKind:
			out = append(out, bindField{Path: p, Kind: f.Kind()})
		case protoreflect.EnumKind:
			out = append(out, bindField{Path: p, Kind: f.Kind(), Enum: string(f.Enum().Values().Get(0).Name())})
		case protoreflect.MessageKind:
			if depth > 0 && !strings.HasPrefix(string(f.Message().FullName()), "google.") {
				out = append(out, bindable(f.Message(), p+".", depth-1)...)
			}
		}
	}
	return out
}

var literals = []string{"a", "z", "items", "v1", "v1.2", "my-seg", "x_y", "Books", "b2b", "n.m-o", "2fa", "_ah", "-", "42", ".well-known"}

// genRule builds a valid rule from the conservative subset, together with a
// path instantiated from it and the bindings that path implies.
func genRule(r *core.Rand, idx int, m c16Method) RuleSpec {
	md := methodDesc(m.Service, m.Name)
	rule := RuleSpec{Selector: m.Service + "." + m.Name, Want: map[string]string{}}
	fields := bindable(md.Input(), "", 1)
	r.Intn(1)
	tmpl := "/r" + strconv.Itoa(idx) // pairwise distinct literal first segments
	path := tmpl
	if r.Chance(1, 4) {
		// ... or below a variable node that annotated routes of the test
		// services already occupy (the trie keys a variable by its pattern, so
		// "*" shares the node of {message_id}, {filename}, ...); kept apart
		// from everything else by a distinct literal right after it
		pre := [][2]string{
			{"/v1/messages/*", "/v1/messages/m7"},
			{"/files/*", "/files/f7"},
			{"/v1/users/*", "/v1/users/u7"},
			{"/v1/*", "/v1/z7"},
		}[r.Intn(4)]
		tmpl = pre[0] + "/x" + strconv.Itoa(idx)
		path = pre[1] + "/x" + strconv.Itoa(idx)
	}
	used := map[string]bool{}
	nseg := r.Intn(4)
	for s := 0; s < nseg; s++ {
		last := s == nseg-1
		switch k := r.Intn(6); {
		case k == 0:
			lit := literals[r.Intn(len(literals))]
			tmpl += "/" + lit
			path += "/" + lit
		case k == 1:
			tmpl += "/*"
			path += "/w" + strconv.Itoa(r.Intn(90))
		case k == 2 && last:
			tmpl += "/**"
			path += "/p" + strconv.Itoa(r.Intn(9)) + "/q"
		default:
			if len(fields) == 0 {
				tmpl += "/k"
				path += "/k"
				continue
			}
			f := fields[r.Intn(len(fields))]
			if used[f.Path] {
				tmpl += "/again"
				path += "/again"
				continue
			}
			used[f.Path] = true
			var val string
			switch f.Kind {
			case protoreflect.StringKind:
				val = r.PickS("v", "abc", "x1", "some-value_2")
			case protoreflect.BoolKind:
				val = r.PickS("true", "false")
			case protoreflect.EnumKind:
				val = f.Enum
			default:
				val = strconv.Itoa(r.Intn(100000))
			}
			switch {
			case f.Multi && r.Chance(1, 3):
				lit := literals[r.Intn(len(literals))]
				tmpl += "/{" + f.Path + "=" + lit + "/*}"
				val = lit + "/" + val
			case f.Multi && last && r.Chance(1, 3):
				lit := literals[r.Intn(len(literals))]
				tmpl += "/{" + f.Path + "=" + lit + "/**}"
				val = lit + "/" + val + "/t"
			default:
				tmpl += "/{" + f.Path + "}"
			}
			path += "/" + val
			rule.Want[f.Path] = val
		}
	}
	if r.Chance(1, 4) {
		verb := r.PickS("cancel", "v", "batchGet", "v1.beta", "batch.get", "x-y", "a_b", "n.m-o")
		tmpl += ":" + verb
		path += ":" + verb
	}
	rule.Template, rule.Path = tmpl, path
	rule.Verb = r.PickS("get", "put", "post", "delete", "patch", "custom:report")
	switch rule.Verb {
	case "put", "post", "patch":
		rule.Body = "*"
		if len(m.Body) > 0 && r.Chance(1, 3) {
			rule.Body = m.Body[r.Intn(len(m.Body))]
			// a field bound by the path must not live inside the body field
			for p := range rule.Want {
				if strings.HasPrefix(p, rule.Body+".") || p == rule.Body {
					rule.Body = "*"
				}
			}
		}
	}
	return rule
}

// mutate turns a valid rule into one that is invalid under any reading of the
// grammar, and says why.
func mutate(r *core.Rand, rule RuleSpec, m c16Method) RuleSpec {
	rule.Path, rule.Want = "", nil
	switch r.Intn(16) {
	case 15:
		// a field path that continues through a repeated field or a map (of
		// messages): there is no one message to descend into - in a template
		// variable, a body selector or a response_body selector
		if m.Service == "larking.testpb.Complex" {
			via := r.PickS("nested_list", "nested_map", "nested_map.value")
			leaf := r.PickS("string_value", "int32_value", "bool_value")
			switch r.Intn(3) {
			case 0:
				rule.Template += "/{" + via + "." + leaf + "}"
			case 1:
				rule.Verb, rule.Body = "post", via+"."+leaf
			case 2:
				rule.RespBody = via + "." + leaf
			}
			rule.Invalid = "field-path-through-list-or-map"
			return rule
		}
		rule.Template += "/{no_such_field.x}"
		rule.Invalid = "unknown-field"
	case 14:
		// something after the verb (the grammar ends a template with it)
		if !strings.Contains(rule.Template, ":") {
			rule.Template += ":" + r.PickS("poke", "v", "batchGet")
		}
		rule.Template += r.PickS("/extra", ":again", "}", "{name}", "/*", "/**")
		rule.Invalid = "junk-after-verb"
	case 13:
		// a selector with an empty component (a field path is IDENT { "." IDENT })
		sel := "payload"
		if len(m.Body) > 0 {
			sel = m.Body[r.Intn(len(m.Body))]
		}
		sel = []string{sel + ".", "." + sel, sel + "..x", ".", ".."}[r.Intn(5)]
		if md := methodDesc(m.Service, m.Name); r.Chance(1, 2) && md.Output().Fields().Len() > 0 {
			rule.RespBody = []string{string(md.Output().Fields().Get(0).Name()) + ".", "." + string(md.Output().Fields().Get(0).Name()), "."}[r.Intn(3)]
			rule.Invalid = "response-body-selector-empty-component"
		} else {
			rule.Verb, rule.Body = "post", sel
			rule.Invalid = "body-selector-empty-component"
		}
	case 9:
		// a variable inside a variable's pattern
		rule.Template += r.PickS("/{a={b}}", "/{text={user_id}}", "/{x=lit/{y}}", "/{a={b=*}}")
		rule.Invalid = "nested-variable"
	case 10:
		// ** anywhere but last (the grammar allows only a verb after it)
		// (the variable forms name a real string field of the request, so
		// that nothing but the position of ** is wrong with the template)
		strf := ""
		for _, f := range bindable(methodDesc(m.Service, m.Name).Input(), "", 0) {
			if f.Kind == protoreflect.StringKind && !strings.Contains(rule.Template, "{"+f.Path) {
				strf = f.Path
				break
			}
		}
		forms := []string{"/**/tail", "/**/*"}
		if strf != "" {
			forms = append(forms, "/{"+strf+"=**}/tail", "/{"+strf+"=lit/**}/x", "/{"+strf+"=**}/*", "/{"+strf+"=**}/tail:v")
		}
		rule.Template += forms[r.Intn(len(forms))]
		rule.Invalid = "starstar-not-last"
	case 11:
		rule.Verb = "custom-nil"
		rule.Invalid = "custom-pattern-missing"
	case 12:
		rule.Verb = "none"
		rule.Invalid = "pattern-missing"
	case 0:
		rule.Template += "/{message_id"
		rule.Invalid = "unbalanced-brace-open"
	case 1:
		rule.Template += "/x}"
		rule.Invalid = "unbalanced-brace-close"
	case 2:
		rule.Template = strings.Replace(rule.Template, "/", "//", 1)
		if !strings.Contains(rule.Template, "//") {
			rule.Template = "/" + rule.Template
		}
		rule.Invalid = "empty-segment"
	case 3:
		rule.Template += "/"
		rule.Invalid = "trailing-slash"
	case 4:
		rule.Template += "/{no_such_field}"
		rule.Invalid = "unknown-field"
	case 5:
		// a field path that continues through a scalar: towards an unknown
		// name, or towards the name of a sibling field of the same message
		md := methodDesc(m.Service, m.Name)
		scalars := bindable(md.Input(), "", 0)
		if len(scalars) > 0 {
			f := scalars[r.Intn(len(scalars))]
			next := "inner"
			if r.Chance(2, 3) {
				next = scalars[r.Intn(len(scalars))].Path // a sibling (or the field itself)
			}
			switch r.Intn(3) {
			case 0:
				rule.Template += "/{" + f.Path + "." + next + "}"
			case 1:
				rule.Verb, rule.Body = "post", f.Path+"."+next
			case 2:
				out := bindable(md.Output(), "", 0)
				if len(out) == 0 {
					rule.Template += "/{" + f.Path + "." + next + "}"
				} else {
					o := out[r.Intn(len(out))]
					rule.RespBody = o.Path + "." + out[r.Intn(len(out))].Path
				}
			}
			rule.Invalid = "field-path-through-scalar"
			return rule
		}
		rule.Template += "/{no.such}"
		rule.Invalid = "unknown-field"
	case 6:
		// (under any verb: a body selector that names nothing is unresolvable
		// whether or not the verb usually carries a body - round 14)
		rule.Verb, rule.Body = r.PickS("post", "put", "patch", "get", "delete"), "no_such_body_field"
		rule.Invalid = "unknown-body-selector"
	case 7:
		rule.RespBody = "no_such_response_field"
		rule.Invalid = "unknown-response-body-selector"
	case 8:
		inner := RuleSpec{Selector: rule.Selector, Verb: "get", Template: rule.Template + "/inner"}
		mid := RuleSpec{Selector: rule.Selector, Verb: "get", Template: rule.Template + "/mid", Additional: []RuleSpec{inner}}
		rule.Additional = []RuleSpec{mid}
		rule.Invalid = "nested-additional-bindings"
	}
	return rule
}

func genC16(r *core.Rand, run int) *MuxScenario {
	sc := &MuxScenario{Prop: "C16", Knobs: Knobs{MaxRecv: 65536}, Local: []string{"-"}, Sequential: true, NoDefaultRules: true}
	nrules := 1 + r.Intn(6)
	neighbour := map[int]bool{} // rules that have, or are, a literal neighbour (case 10)
	for i := 0; i < nrules; i++ {
		m := c16Methods[r.Intn(len(c16Methods))]
		rule := genRule(r, i+1, m)
		switch r.Intn(14) {
		case 0, 1, 2:
			rule = mutate(r, rule, m)
		case 3: // valid additional bindings - or several of which one, not the last, is invalid
			if rule.Invalid == "" {
				n := 1 + r.Intn(3)
				bad := -1
				if n >= 2 && r.Chance(1, 3) {
					bad = r.Intn(n - 1)
				}
				for k := 0; k < n; k++ {
					add := genRule(r, 100+10*i+k, m)
					if k == bad {
						add = mutate(r, add, m)
						if len(add.Additional) > 0 || add.Invalid == "" {
							add = RuleSpec{Verb: "get", Template: "/r" + strconv.Itoa(100+10*i+k) + "/{no_such_field}", Invalid: "unknown-field"}
						}
						rule.Invalid, rule.Path, rule.Want = "additional-binding:"+add.Invalid, "", nil
					}
					add.Selector = ""
					rule.Additional = append(rule.Additional, add)
				}
			}
		case 4: // a valid response_body selector
			if md := methodDesc(m.Service, m.Name); md.Output().Fields().ByName("payload") != nil {
				rule.RespBody = "payload"
			}
		case 5: // the same verb and template bound to a different method: a conflict
			if len(sc.Rules) > 0 {
				prev := sc.Rules[r.Intn(len(sc.Rules))]
				// (not a copy of a copy: that one may have been taken from a
				// rule of this very method, and a method's second binding of
				// the same shape is an overlap, not a conflict)
				if prev.Invalid == "" && !prev.Long && !prev.Conflict && prev.Selector != rule.Selector && !strings.Contains(prev.Template, "{") && (prev.Body == "*" || prev.Body == "") && prev.RespBody == "" {
					rule.Verb, rule.Template, rule.Body = prev.Verb, prev.Template, prev.Body
					rule.Path, rule.Want = "", nil
					rule.Conflict = true
				}
			}
		case 7: // a very long (well-formed) template: around and beyond the lexer's 64-token budget
			n := 26 + r.Intn(16)
			t := "/r" + strconv.Itoa(i+1)
			for k := 1; k < n; k++ {
				switch r.Intn(6) {
				case 0:
					t += "/*"
				default:
					t += "/" + literals[r.Intn(len(literals))]
				}
			}
			if r.Chance(1, 3) {
				t += ":" + r.PickS("v", "cancel")
			}
			rule = RuleSpec{Selector: rule.Selector, Verb: "get", Template: t, Long: true}
		case 8: // the same binding as an earlier rule of another method, spelled differently: {f} vs {g=*} vs *
			if len(sc.Rules) > 0 {
				prev := sc.Rules[r.Intn(len(sc.Rules))]
				if prev.Invalid == "" && !prev.Long && !prev.Conflict && prev.Selector != rule.Selector && reNamedVar.MatchString(prev.Template) && !rePatternVar.MatchString(prev.Template) && (prev.Body == "*" || prev.Body == "") && prev.RespBody == "" && len(prev.Additional) == 0 {
					var strs []bindField
					for _, f := range bindable(methodDesc(m.Service, m.Name).Input(), "", 0) {
						if f.Kind == protoreflect.StringKind {
							strs = append(strs, f)
						}
					}
					n := 0
					t := reNamedVar.ReplaceAllStringFunc(prev.Template, func(string) string {
						n++
						if len(strs) >= n && r.Chance(1, 2) {
							return "{" + strs[n-1].Path + "=*}"
						}
						return "*"
					})
					rule = RuleSpec{Selector: rule.Selector, Verb: prev.Verb, Template: t, Body: prev.Body, Conflict: true}
				}
			}
		case 9: // bind another method's implicit /Service/Method path for every verb
			other := c16Methods[r.Intn(len(c16Methods))]
			if other.Service+"."+other.Name != rule.Selector {
				// (for every verb, or for one: kind "*" on the implicit path claims that one too, whichever comes first)
				rule = RuleSpec{Selector: rule.Selector, Verb: r.PickS("custom:*", "custom:*", "post", "get", "patch"), Template: "/" + other.Service + "/" + other.Name, Body: "*", Conflict: true}
				if rule.Verb == "get" {
					rule.Body = ""
				}
			}
		case 10: // beside an earlier rule's variable, the literal its probe instantiates the variable with - under another verb
			if len(sc.Rules) > 0 {
				pi := r.Intn(len(sc.Rules))
				prev := sc.Rules[pi]
				// (one such neighbour per rule, and none for a neighbour: two of
				// them under one verb would overlap on the very path both are
				// probed with, and which one wins is precedence - C02's subject)
				if prev.Invalid == "" && !prev.Long && !prev.Conflict && prev.Path != "" && len(prev.Additional) == 0 && !neighbour[pi] {
					neighbour[pi], neighbour[len(sc.Rules)] = true, true
					var names []string
					for f, v := range prev.Want {
						if strings.Contains(prev.Template, "/{"+f+"}") && !strings.Contains(v, "/") {
							names = append(names, f)
						}
					}
					sort.Strings(names)
					if len(names) > 0 {
						f := names[r.Intn(len(names))]
						t := strings.Replace(prev.Template, "/{"+f+"}", "/"+prev.Want[f], 1)
						t = normTemplate(t) // the other variables of prev need not exist in this method's request
						verbs := []string{"get", "put", "post", "delete", "patch"}
						verb := verbs[r.Intn(len(verbs))]
						if verb == prev.Verb {
							verb = verbs[(r.Intn(len(verbs)-1)+1+indexOf(verbs, verb))%len(verbs)]
						}
						rule = RuleSpec{Selector: rule.Selector, Verb: verb, Template: t, Path: prev.Path, Want: map[string]string{}}
						if verb == "put" || verb == "post" || verb == "patch" {
							rule.Body = "*"
						}
					}
				}
			}
		case 11: // an earlier rule ends in ":verb": the same path with "/verb" instead, same HTTP verb, another method - two different routes
			if len(sc.Rules) > 0 {
				pi := r.Intn(len(sc.Rules))
				prev := sc.Rules[pi]
				if k := strings.LastIndex(prev.Template, ":"); k > 0 && prev.Invalid == "" && !prev.Long && !prev.Conflict && prev.Path != "" && len(prev.Additional) == 0 && !neighbour[pi] && !strings.Contains(prev.Template[k:], "}") && !strings.Contains(prev.Template, "**") { // (nothing may follow a **)
					neighbour[pi], neighbour[len(sc.Rules)] = true, true
					t := normTemplate(prev.Template[:k] + "/" + prev.Template[k+1:])
					pk := strings.LastIndex(prev.Path, ":")
					rule = RuleSpec{Selector: rule.Selector, Verb: prev.Verb, Template: t, Body: prev.Body, Path: prev.Path[:pk] + "/" + prev.Path[pk+1:], Want: map[string]string{}}
					if rule.Body != "*" {
						rule.Body = ""
						if prev.Verb == "put" || prev.Verb == "post" || prev.Verb == "patch" {
							rule.Body = "*"
						}
					}
				}
			}
		case 12: // the rule's own template once more, for every verb (kind "*"), as an additional binding: the other verbs reach the method too
			if rule.Invalid == "" && rule.Path != "" && !rule.Long && !strings.HasPrefix(rule.Verb, "custom:") && len(rule.Additional) == 0 {
				pv := "DELETE"
				if rule.Verb == "delete" {
					pv = "GET"
				}
				rule.Additional = []RuleSpec{{Verb: "custom:*", Template: rule.Template, Path: rule.Path, Want: rule.Want, ProbeVerb: pv}}
			}
		case 13: // a run of stars as a segment (round 13): refused, or a literal - never a wildcard
			pre := "/sr" + strconv.Itoa(i+1) + r.PickS("", "/lit", "/a/b")
			rule = RuleSpec{Selector: rule.Selector, Verb: "get", Template: pre + "/" + strings.Repeat("*", 3+r.Intn(3)), Long: true, StarRun: true, NegPath: pre + "/zz9"}
		case 6: // re-declare the implicit /Service/Method path for the same method
			rule = RuleSpec{Selector: rule.Selector, Verb: "post", Body: "*", Template: "/" + m.Service + "/" + m.Name, Path: "/" + m.Service + "/" + m.Name, Want: map[string]string{}}
			switch r.Intn(4) {
			case 0, 1: // ... with an additional binding of its own, which must route like any other
				add := genRule(r, 200+i, m)
				add.Selector = ""
				rule.Additional = append(rule.Additional, add)
			case 2: // ... or with a two-level additional binding, which is as invalid here as anywhere
				inner := RuleSpec{Verb: "get", Template: "/r" + strconv.Itoa(300+i) + "/inner"}
				mid := RuleSpec{Verb: "get", Template: "/r" + strconv.Itoa(300+i) + "/mid", Additional: []RuleSpec{inner}}
				rule.Additional = []RuleSpec{mid}
				rule.Invalid, rule.Path, rule.Want = "nested-additional-bindings", "", nil
			}
		}
		if (m.Service == "larking.testpb.Complex" || m.Service == "larking.testpb.WellKnown") && r.Chance(1, 3) {
			rule.Wild = true // a one-method service: "Service.*" selects the same method
		}
		sc.Rules = append(sc.Rules, rule)
	}
	// the history of registrations, onto an empty or a non-empty mux
	svcs := []string{svcMessaging, tsvc, svcFiles, "larking.testpb.Complex", "larking.testpb.WellKnown"}
	if r.Chance(1, 3) {
		sc.Pre = []RegOp{{Kind: "regsvc", Target: "local", Service: "larking.testpb.ChatRoom"}}
	}
	var ops []RegOp
	for k := 1 + r.Intn(5); k > 0; k-- {
		ops = append(ops, RegOp{Kind: "regsvc", Target: "local", Service: svcs[r.Intn(len(svcs))]})
	}
	sc.Registrars = [][]RegOp{ops}
	// probes: decided after the model has run over the history (below), so
	// that every live rule is probed after every operation
	model := newRuleModel(sc)
	id := 1
	for k, op := range ops {
		// (the verdicts the model does not predict - long templates, kind "*"
		// overlaps - are taken as accepted here; the oracle judges a probe only
		// if its own run of the model, which follows what happened, holds the
		// probed service as accepted)
		if ok, _, _ := model.wouldAccept(op.Service); ok {
			model.register(op.Service)
		}
		for _, pr := range model.probes() {
			pr.ID, pr.Round = id, k+1
			sc.Reqs = append(sc.Reqs, pr)
			id++
		}
	}
	return sc
}

// ---- the reference model ------------------------------------------------------------------

type binding struct {
	verb, tmpl string
}

var (
	reNamedVar   = regexp.MustCompile(`\{[^=}]+\}`)
	rePatternVar = regexp.MustCompile(`\{[^=}]+=([^}]*)\}`)
)

// normTemplate: two templates that differ only in how a variable is spelled
// ({f}, {g=*}, a bare *) or named are the same binding.
func normTemplate(t string) string {
	t = rePatternVar.ReplaceAllString(t, "$1")
	return reNamedVar.ReplaceAllString(t, "*")
}

func bindingOf(b *RuleSpec) binding { return binding{b.httpMethod(), normTemplate(b.Template)} }

type ruleModel struct {
	sc       *MuxScenario
	accepted map[string]bool    // services whose registration was accepted
	bound    map[binding]string // verb+template -> method selector
	live     []RuleSpec         // rules (and additional bindings) that are routable now
	tainted  map[string]bool    // services whose routes overlap another method's through kind "*"
}

func newRuleModel(sc *MuxScenario) *ruleModel {
	return &ruleModel{sc: sc, accepted: map[string]bool{}, bound: map[binding]string{}}
}

func serviceOf(selector string) string { return selector[:strings.LastIndex(selector, ".")] }

// hasLong: the service carries a rule whose verdict the model does not predict.
func (m *ruleModel) hasLong(service string) bool {
	for _, rule := range m.sc.Rules {
		if serviceOf(rule.Selector) == service && rule.Long {
			return true
		}
	}
	return false
}

// implicitBindings: every method is also bound for every verb at /Service/Method.
func implicitBindings(service string) map[binding]string {
	out := map[binding]string{}
	d, err := protoregistry.GlobalFiles.FindDescriptorByName(protoreflect.FullName(service))
	if err != nil {
		return out
	}
	mds := d.(protoreflect.ServiceDescriptor).Methods()
	for i := 0; i < mds.Len(); i++ {
		name := string(mds.Get(i).Name())
		out[binding{"*", "/" + service + "/" + name}] = service + "." + name
	}
	return out
}

// overlaps reports the owners of bindings that share key's template, belong to
// another method, and meet key through kind "*" ("every verb" on one side, one
// verb on the other): a conflict, in whichever order the two arrive (kind "*"
// claims every verb). The model first predicted neither verdict here (larking
// refused one order and accepted the other); see DESIGN.md section 15.
func overlaps(bound map[binding]string, key binding, owner string) []string {
	var out []string
	for k, o := range bound {
		if k.tmpl != key.tmpl || o == owner || k.verb == key.verb {
			continue
		}
		if k.verb == "*" || key.verb == "*" {
			out = append(out, o)
		}
	}
	sort.Strings(out)
	return out
}

// wouldAccept is the reference recogniser's verdict on registering service;
// unsure lists the methods whose bindings overlap with the service's only
// through kind "*" when nothing else decides the verdict.
func (m *ruleModel) wouldAccept(service string) (ok bool, why string, unsure []string) {
	bound := map[binding]string{}
	for k, v := range m.bound {
		bound[k] = v
	}
	for k, v := range implicitBindings(service) {
		if owner, ok := bound[k]; ok && owner != v {
			return false, "conflict on the implicit path " + k.tmpl + " with " + owner, nil
		}
	}
	for k, v := range implicitBindings(service) {
		if ov := overlaps(bound, k, v); len(ov) > 0 {
			return false, "conflict on the implicit path " + k.tmpl + " (bound for every verb) with a verb of " + ov[0], nil
		}
		bound[k] = v
	}
	for _, rule := range m.sc.Rules {
		if serviceOf(rule.Selector) != service {
			continue
		}
		if rule.Invalid != "" {
			return false, rule.Invalid + " in " + rule.Template, nil
		}
		all := append([]RuleSpec{rule}, rule.Additional...)
		for _, b := range all {
			key := bindingOf(&b)
			if owner, ok := bound[key]; ok && owner != rule.Selector {
				return false, "conflict on " + b.Verb + " " + b.Template + " with " + owner, nil
			}
			if ov := overlaps(bound, key, rule.Selector); len(ov) > 0 {
				return false, "conflict on " + b.Verb + " " + b.Template + " with " + ov[0] + " (kind * claims every verb)", nil
			}
			bound[key] = rule.Selector
		}
	}
	return true, "", unsure
}

// register records an accepted registration (the caller has the verdict).
func (m *ruleModel) register(service string) {
	first := !m.accepted[service]
	m.accepted[service] = true
	for k, v := range implicitBindings(service) {
		m.bound[k] = v
	}
	for _, rule := range m.sc.Rules {
		if serviceOf(rule.Selector) != service {
			continue
		}
		all := append([]RuleSpec{rule}, rule.Additional...)
		for _, b := range all {
			b.Selector = rule.Selector
			m.bound[bindingOf(&b)] = rule.Selector
			if first && b.Path != "" {
				m.live = append(m.live, b)
			}
		}
	}
}

// taint: the routes of these services are not probed any more (a kind "*"
// overlap was accepted: which of the two methods a verb reaches is not stated).
func (m *ruleModel) taint(service string, owners []string) {
	if m.tainted == nil {
		m.tainted = map[string]bool{}
	}
	m.tainted[service] = true
	for _, o := range owners {
		m.tainted[serviceOf(o)] = true
	}
}

// probes returns one request per live rule plus one implicit-path request per
// accepted service.
func (m *ruleModel) probes() []ReqSpec {
	var out []ReqSpec
	for i := range m.live {
		b := m.live[i]
		if m.hasLong(serviceOf(b.Selector)) {
			continue
		}
		verb := b.httpMethod()
		if b.ProbeVerb != "" {
			verb = b.ProbeVerb
		}
		sp := ReqSpec{Proto: "http", Codec: "json", Method: "raw", Weight: 2,
			Raw: &RawProbe{Verb: verb, Path: b.Path, Selector: b.Selector, Want: b.Want, HasBody: b.Body != ""}}
		out = append(out, sp)
	}
	for _, rule := range m.sc.Rules {
		if rule.StarRun && m.accepted[serviceOf(rule.Selector)] {
			out = append(out, ReqSpec{Proto: "http", Codec: "json", Method: "raw", Weight: 2,
				Raw: &RawProbe{Verb: "GET", Path: rule.NegPath, Selector: rule.Selector, Negative: true}})
		}
	}
	for _, cm := range c16Methods {
		if m.accepted[cm.Service] && !m.hasLong(cm.Service) {
			out = append(out, ReqSpec{Proto: "http", Codec: "json", Method: "raw", Weight: 2,
				Raw: &RawProbe{Verb: "POST", Path: "/" + cm.Service + "/" + cm.Name, Selector: cm.Service + "." + cm.Name, HasBody: true}})
		}
	}
	return out
}

// RawProbe is an HTTP request given by verb and path, with the method and the
// field bindings it is expected to produce.
type RawProbe struct {
	Verb     string            `json:"verb"`
	Path     string            `json:"path"`
	Selector string            `json:"selector"`
	Want     map[string]string `json:"want,omitempty"`
	HasBody  bool              `json:"has_body,omitempty"`
	Negative bool              `json:"negative,omitempty"` // the path must NOT reach Selector's method (judged only if its service was accepted)
}

func rawMethodInfo(p *RawProbe) *methodInfo {
	svc := serviceOf(p.Selector)
	name := p.Selector[len(svc)+1:]
	md := methodDesc(svc, name)
	return &methodInfo{Key: "raw", Service: svc, Name: name,
		mkReq:   func([]byte, string) proto.Message { return newMsgByDesc(md.Input()) },
		mkResp:  func([]byte) proto.Message { return newMsgByDesc(md.Output()) },
		newReq:  func() proto.Message { return newMsgByDesc(md.Input()) },
		newResp: func() proto.Message { return newMsgByDesc(md.Output()) },
	}
}

func fieldText(m proto.Message, path string) (string, bool) {
	cur := m.ProtoReflect()
	parts := strings.Split(path, ".")
	for i, p := range parts {
		fd := cur.Descriptor().Fields().ByName(protoreflect.Name(p))
		if fd == nil {
			return "", false
		}
		if i == len(parts)-1 {
			v := cur.Get(fd)
			switch fd.Kind() {
			case protoreflect.EnumKind:
				if ev := fd.Enum().Values().ByNumber(v.Enum()); ev != nil {
					return string(ev.Name()), true
				}
				return strconv.Itoa(int(v.Enum())), true
			case protoreflect.BoolKind:
				return strconv.FormatBool(v.Bool()), true
			default:
				return v.String(), true
			}
		}
		if fd.Message() == nil {
			return "", false
		}
		cur = cur.Get(fd).Message()
	}
	return "", false
}

func runC16(t *testing.T, rc *RunCtx) *RunResult {
	sc := loadMuxScenario(rc, genC16)
	tape := rc.NewTape()
	mr := runMuxScenario(t, sc, tape)
	res := &RunResult{Extra: map[string]int{}}
	mr.fill(res, tape)
	var kinds []string
	for _, r := range sc.Rules {
		k := "ok"
		if r.Invalid != "" {
			k = r.Invalid
		} else if r.Conflict {
			k = "conflict"
		}
		kinds = append(kinds, k)
	}
	res.Shape = fmt.Sprintf("rules=%s|%s|pre=%d", strings.Join(kinds, ","), historyString(sc.Registrars[0]), len(sc.Pre))
	res.Nontrivial = true
	res.Violation = oracleRules(mr, res)
	return res
}

func oracleRules(mr *muxRun, res *RunResult) *Violation {
	const prop = "C16"
	cnt := &res.Counters
	sc := mr.sc
	for _, g := range append([]*registrar{mr.pre}, mr.registrars...) {
		if g == nil {
			continue
		}
		for _, rr := range g.res {
			if rr.Panic != nil {
				return violationf(prop, "registration-panic", larkingFrame(rr.Stack), "RegisterService(%s) panicked: %v\nrules: %s\n%s", rr.Op.Service, rr.Panic, rulesString(sc.Rules), trimStack(rr.Stack))
			}
		}
	}
	if v := mr.globalInvariants(prop); v != nil {
		return v
	}
	model := newRuleModel(sc)
	g := mr.registrars[0]
	overlapSeen := false
	for k, rr := range g.res {
		if !rr.Done {
			return violationf(prop, "operation-never-returned", "regsvc", "registration %d did not return", k)
		}
		want, why, unsure := model.wouldAccept(rr.Op.Service)
		if want && model.hasLong(rr.Op.Service) {
			// beyond the token budget either verdict is fine (an error, never a
			// panic - checked above); the model follows what happened
			want, why = rr.Err == nil, "long template refused"
		}
		if want && len(unsure) > 0 {
			// bindings that meet another method's only through kind "*": either
			// verdict (see overlaps); if accepted, the services involved are no
			// longer probed
			cnt[cStarOverlap]++
			overlapSeen = true
			want, why = rr.Err == nil, "kind * overlap refused"
			if want {
				model.taint(rr.Op.Service, unsure)
			}
		}
		ctx := "accept"
		if !want {
			ctx = "reject:" + strings.SplitN(why, " ", 2)[0]
		}
		switch {
		case want && rr.Err != nil:
			return violationf(prop, "valid-rules-rejected", ctx, "RegisterService(%s) returned %v; every rule attached to it is well-formed and resolves:\n%s", rr.Op.Service, rr.Err, rulesString(rulesOf(sc, rr.Op.Service)))
		case !want && rr.Err == nil:
			return violationf(prop, "invalid-rule-accepted", ctx, "RegisterService(%s) returned nil although: %s\n%s", rr.Op.Service, why, rulesString(rulesOf(sc, rr.Op.Service)))
		case !want:
			cnt[cFailedRegistration]++
			if rr.SnapAfter != rr.SnapBefore || rr.FPAfter != rr.FPBefore {
				return violationf(prop, "failed-registration-changed-state", ctx, "the rejected RegisterService(%s) (%v) changed the published routing state:\n  before %s\n  after  %s", rr.Op.Service, rr.Err, abbreviate(rr.FPBefore, 500), abbreviate(rr.FPAfter, 500))
			}
		}
		if want {
			model.register(rr.Op.Service)
		}
		// probes of this round
		for _, rs := range mr.reqs {
			if rs.spec.Round != k+1 {
				continue
			}
			p := rs.spec.Raw
			if p.Negative {
				// the literal reading of a star run matches the stars themselves
				// only; the strict one refuses the rule (then nothing is live)
				nfull := "/" + serviceOf(p.Selector) + "/" + p.Selector[len(serviceOf(p.Selector))+1:]
				if svc := serviceOf(p.Selector); model.accepted[svc] && !model.tainted[svc] && len(rs.servedMethods) > 0 && rs.servedMethods[0] == nfull {
					return violationf(prop, "template-matches-too-much", "star-run", "after registration %d (%s): %s %s reached %s through a rule whose last segment is a run of stars (refused, or a literal - not a wildcard)\nrules: %s", k, rr.Op.Service, p.Verb, p.Path, nfull, rulesString(sc.Rules))
				}
				cnt[cProbeSkipped]++
				continue
			}
			if svc := serviceOf(p.Selector); !model.accepted[svc] || model.tainted[svc] || model.hasLong(svc) {
				// generated on the assumption that an unpredicted verdict was
				// "accepted"; what happened says otherwise
				cnt[cProbeSkipped]++
				continue
			}
			resp := rs.q.response()
			pctx := "probe"
			if len(p.Want) > 0 {
				pctx = "probe+vars"
			}
			full := "/" + serviceOf(p.Selector) + "/" + p.Selector[len(serviceOf(p.Selector))+1:]
			if len(rs.servedMethods) == 0 {
				return violationf(prop, "accepted-route-unreachable", pctx, "after registration %d (%s): %s %s did not reach %s: HTTP %d %q\nrules: %s", k, rr.Op.Service, p.Verb, p.Path, full, resp.Status, string(resp.Body[:min(len(resp.Body), 200)]), rulesString(sc.Rules))
			}
			if rs.servedMethods[0] != full {
				return violationf(prop, "routed-to-wrong-method", pctx, "%s %s reached %s, want %s\nrules: %s", p.Verb, p.Path, rs.servedMethods[0], full, rulesString(sc.Rules))
			}
			cnt[cProbeServed]++
			l := rs.log()
			if len(l.Recv) == 1 {
				for path, want := range p.Want {
					got, ok := fieldText(l.Recv[0], path)
					if !ok || got != want {
						return violationf(prop, "path-binding-mismatch", pctx, "%s %s: field %s = %q, the path binds %q (message %s)", p.Verb, p.Path, path, got, want, msgPreview(l.Recv[0]))
					}
				}
			}
		}
	}
	// the final snapshot routes exactly what registering the accepted services
	// on an empty mux routes (not judged where acceptance itself is
	// order-dependent: kind "*" overlaps)
	if !overlapSeen {
		if v := oracleReference(prop, mr, historyString(g.ops)+"; rules: "+rulesString(sc.Rules), cnt); v != nil {
			return v
		}
	}
	return nil
}

func rulesOf(sc *MuxScenario, service string) []RuleSpec {
	var out []RuleSpec
	for _, r := range sc.Rules {
		if serviceOf(r.Selector) == service {
			out = append(out, r)
		}
	}
	return out
}

func rulesString(rules []RuleSpec) string {
	var parts []string
	for _, r := range rules {
		name := r.Selector[strings.LastIndex(r.Selector, ".")+1:]
		if r.Wild {
			name += "(.*)"
		}
		s := fmt.Sprintf("{%s %s %q body=%q resp=%q", name, r.Verb, r.Template, r.Body, r.RespBody)
		if len(r.Additional) > 0 {
			s += " +" + rulesString(r.Additional)
		}
		if r.Invalid != "" {
			s += " INVALID:" + r.Invalid
		}
		if r.Conflict {
			s += " CONFLICT"
		}
		parts = append(parts, s+"}")
	}
	return strings.Join(parts, " ")
}

func indexOf(xs []string, x string) int {
	for i, v := range xs {
		if v == x {
			return i
		}
	}
	return 0
}
