//go:build !race

package engine

const raceEnabled = false
