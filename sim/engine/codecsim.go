package engine

import (
	"bytes"
	"errors"
	"fmt"
	"io"
	"math"
	"testing"

	"google.golang.org/protobuf/encoding/protowire"
	"larking.io/larking"

	"encoding/json"
	"verif/sim/core"
)

// codecsim (C17): the exported stream codecs and the built-in HttpBody chunker
// driven by a scripted, fragmenting, fault-injecting reader, with the caller
// side following the StreamCodec contract the way the mux's HTTP stream reader
// does (carry dst[n:] into the next call).

func init() { engines["C17"] = runCodec }

type codecFrame struct {
	Prefix  []byte `json:"prefix,omitempty"` // proto: the varint actually written (may be non-minimal / overflowing)
	Payload []byte `json:"payload"`
	Sep     []byte `json:"sep,omitempty"` // json: whitespace written before the object
	// expectations
	Size    uint64 `json:"size"`               // proto: value of the prefix
	BadSize bool   `json:"bad_size,omitempty"` // prefix does not decode to a uint64 at all
}

type CodecScenario struct {
	Codec     string       `json:"codec"` // proto | json | body
	Frames    []codecFrame `json:"frames,omitempty"`
	Body      []byte       `json:"body,omitempty"` // body codec: the upload
	Limit     int          `json:"limit"`
	InitCap   int          `json:"init_cap"`
	CutAt     int          `json:"cut_at"`     // -1: none; else the reader reports clean EOF at this offset
	ErrAt     int          `json:"err_at"`     // -1: none; else the reader fails with a non-EOF error at this offset
	Faulted   bool         `json:"faulted"`    // fault class (cut / error) vs clean class
	ZeroReads bool         `json:"zero_reads"` // legal (0,nil) reads allowed
	EOFData   bool         `json:"eof_data"`   // final chunk may come as (n>0, io.EOF)
	FreshBufs bool         `json:"fresh_bufs"` // caller may switch to a fresh buffer between calls
	ViaWriter bool         `json:"via_writer"` // stream produced by WriteNext (else hand framed)
	// Dense class: the reads end exactly at the offsets i (0 < i < len) whose bit
	// i-1 is set in SplitMask; the mask comes from the run index, so that every
	// one of the 2^(len-1) partitions of a short stream is among the runs of a
	// batch (the tape still decides zero reads, EOF-with-data, buffers, faults).
	Dense     bool   `json:"dense,omitempty"`
	SplitMask uint64 `json:"split_mask,omitempty"`
	Stream    []byte `json:"-"`
}

var errInjectedRead = errors.New("sim: injected transport read error")

type fragReader struct {
	data    []byte
	pos     int
	end     int // data visible to the reader (cut)
	end0    int // length of the whole stream
	errAt   int
	tape    *core.Tape
	sc      *CodecScenario
	zeroRun int
	cnt     *[core.NumCounters]int
	reads   int
	gaveEOF bool
	splits  []int // offsets at which a read ended with more data to come
}

func (f *fragReader) Read(p []byte) (int, error) {
	f.reads++
	if len(p) == 0 {
		return 0, nil
	}
	limit := f.end
	if f.errAt >= 0 && f.errAt < limit {
		limit = f.errAt
	}
	if f.pos >= limit {
		if f.errAt >= 0 && f.pos >= f.errAt {
			f.cnt[cReadError]++
			return 0, errInjectedRead
		}
		f.gaveEOF = true
		return 0, io.EOF
	}
	if f.sc.ZeroReads && f.zeroRun < 2 && f.tape.Chance(1, 8) {
		f.zeroRun++
		f.cnt[cZeroRead]++
		return 0, nil
	}
	f.zeroRun = 0
	max := limit - f.pos
	if len(p) < max {
		max = len(p)
	}
	k := max
	if f.sc.Dense {
		k = 1
		for f.pos+k < f.end0 && f.sc.SplitMask&(1<<uint(f.pos+k-1)) == 0 {
			k++
		}
		if k > max {
			k = max
		}
	} else {
		switch f.tape.Draw(4) {
		case 1:
			k = 1
			f.cnt[cOneByteRead]++
		case 2:
			k = 1 + f.tape.Draw(max)
		case 3:
			k = 1 + f.tape.Draw(8)
			if k > max {
				k = max
			}
		}
	}
	if k < max {
		f.cnt[cShortRead]++
	}
	copy(p, f.data[f.pos:f.pos+k])
	f.pos += k
	if f.pos < limit {
		f.splits = append(f.splits, f.pos)
	}
	if f.pos == f.end && (f.errAt < 0 || f.errAt > f.end) && f.sc.EOFData && f.tape.Chance(1, 2) {
		f.cnt[cEOFWithData]++
		f.gaveEOF = true
		return k, io.EOF
	}
	return k, nil
}

// ---- scenario generation ---------------------------------------------------

func patternBytes(seed uint64, n int) []byte {
	b := make([]byte, n)
	s := seed | 1
	for i := range b {
		s = s*6364136223846793005 + 1442695040888963407
		b[i] = byte(s >> 33)
	}
	return b
}

var jsonAtoms = []string{
	`{}`, `{"a":1}`, `{"s":"x"}`, `{"s":"}"}`, `{"s":"{"}`, `{"s":"\""}`, `{"s":"\\"}`, `{"s":"\\\""}`, `{"s":"a\\\\"}`,
	`{"n":{"m":{}}}`, `{"l":[{"a":"}"},{"b":"{"}]}`, `{"u":"é"}`, `{"u":"日本語"}`, `{"u":"é"}`, `{"e":"\\u007d"}`,
	`{"k}":"v{"}`, `{"s":"\\}"}`, `{"q":"\"}\""}`, `{ "sp" : [ 1 , 2 ] }`, "{\"nl\":\n1}",
}

func genJSONObject(r *core.Rand, target int) []byte {
	if r.Chance(1, 24) {
		// deeply nested objects and arrays of objects (a google.protobuf.Struct
		// can be this deep; protojson allows 10 000 levels): around the sizes
		// of the small integer types
		depth := r.Pick(30, 126, 127, 128, 129, 130, 255, 256, 257, 300, 600)
		var b bytes.Buffer
		for i := 0; i < depth; i++ {
			if i%7 == 3 {
				b.WriteString(`{"a":[`)
			} else {
				b.WriteString(`{"n":`)
			}
		}
		b.WriteString(`{}`)
		for i := depth - 1; i >= 0; i-- {
			if i%7 == 3 {
				b.WriteString(`]}`)
			} else {
				b.WriteString(`}`)
			}
		}
		return b.Bytes()
	}
	if target <= 0 || r.Chance(1, 2) {
		return []byte(jsonAtoms[r.Intn(len(jsonAtoms))])
	}
	// An object padded to roughly the target size with a string full of
	// structural characters.
	var b bytes.Buffer
	b.WriteString(`{"p":"`)
	fill := []string{"a", "}", "{", `\"`, `\\`, "é", "x", `{`}
	for b.Len() < target-3 {
		b.WriteString(fill[r.Intn(len(fill))])
	}
	b.WriteString(`"}`)
	return b.Bytes()
}

func appendNonMinimalVarint(b []byte, v uint64, width int) []byte {
	// width bytes, all but the last with the continuation bit.
	for i := 0; i < width-1; i++ {
		b = append(b, byte(v&0x7f)|0x80)
		v >>= 7
	}
	return append(b, byte(v&0x7f))
}

// ---- dense class: every partition of a catalogue of short streams ----------

type denseEntry struct {
	codec  string
	frames []codecFrame
	body   []byte
	limit  int // body: chunk size
	n      int // stream length
}

var (
	denseCatalogue []denseEntry
	denseCaps      = []int{0, 1, 3, 64}
	denseTotal     int
)

func init() {
	pf := func(sizes ...int) []codecFrame { // hand-framed proto messages, minimal prefixes
		var fs []codecFrame
		for i, n := range sizes {
			fs = append(fs, codecFrame{Prefix: protowire.AppendVarint(nil, uint64(n)), Payload: patternBytes(uint64(77+i), n), Size: uint64(n)})
		}
		return fs
	}
	jf := func(objs ...string) []codecFrame {
		var fs []codecFrame
		for _, o := range objs {
			sep := ""
			for len(o) > 0 && (o[0] == ' ' || o[0] == '\n') {
				sep += o[:1]
				o = o[1:]
			}
			f := codecFrame{Payload: []byte(o), Size: uint64(len(o))}
			if sep != "" {
				f.Sep = []byte(sep)
			}
			fs = append(fs, f)
		}
		return fs
	}
	add := func(e denseEntry) {
		e.n = len(e.body)
		for _, f := range e.frames {
			e.n += len(f.Sep) + len(f.Prefix) + len(f.Payload)
		}
		if e.n > 12 {
			panic("dense catalogue: stream too long")
		}
		denseCatalogue = append(denseCatalogue, e)
	}
	for _, fs := range [][]codecFrame{pf(), pf(0), pf(1), pf(0, 0), pf(2, 1), pf(3), pf(1, 0, 2), pf(5, 3), pf(0, 4, 0), pf(9), pf(1, 1, 1, 1, 1)} {
		add(denseEntry{codec: "proto", frames: fs})
	}
	// a non-minimal two-byte prefix and a three-byte one
	add(denseEntry{codec: "proto", frames: []codecFrame{{Prefix: []byte{0x82, 0x00}, Payload: []byte{7, 9}, Size: 2}, {Prefix: []byte{0x01}, Payload: []byte{5}, Size: 1}}})
	add(denseEntry{codec: "proto", frames: []codecFrame{{Prefix: []byte{0x81, 0x80, 0x00}, Payload: []byte{3}, Size: 1}, {Prefix: []byte{0x80, 0x00}, Payload: nil, Size: 0}}})
	for _, fs := range [][]codecFrame{jf(), jf(`{}`), jf(`{}`, `{}`), jf(`{"a":1}`), jf(`{"s":"}"}`), jf(`{}`, ` {}`, "\n{}"), jf(`{"a":{}}`, `{}`), jf(`{"s":"\""}`), jf(`{"é":1}`, `{}`), jf(`{"s":"\\\\"}`), jf(`{"a":[{}]}`)} {
		add(denseEntry{codec: "json", frames: fs})
	}
	for _, lim := range []int{1, 2, 3, 5} {
		for _, n := range []int{0, 1, 2, 3, 4, 5, 6, 7, 9, 10, 11} {
			add(denseEntry{codec: "body", body: patternBytes(uint64(lim*100+n), n), limit: lim})
		}
	}
	for _, e := range denseCatalogue {
		k := e.n - 1
		if k < 0 {
			k = 0
		}
		denseTotal += len(denseCaps) << uint(k)
	}
}

// denseScenario maps the first denseTotal run indexes of a batch onto
// (catalogue stream, initial capacity, partition).
func denseScenario(r *core.Rand, run int) *CodecScenario {
	if run >= denseTotal {
		return nil
	}
	j := run
	for _, e := range denseCatalogue {
		k := e.n - 1
		if k < 0 {
			k = 0
		}
		block := 1 << uint(k)
		if j >= len(denseCaps)*block {
			j -= len(denseCaps) * block
			continue
		}
		sc := &CodecScenario{CutAt: -1, ErrAt: -1, Codec: e.codec, Dense: true, SplitMask: uint64(j % block), InitCap: denseCaps[j/block]}
		sc.Frames = append([]codecFrame(nil), e.frames...)
		sc.Body = e.body
		sc.ViaWriter = e.codec == "json"
		sc.ZeroReads = r.Chance(1, 4)
		sc.EOFData = r.Chance(1, 2)
		sc.FreshBufs = r.Chance(1, 4)
		switch e.codec {
		case "body":
			sc.Limit = e.limit
		default:
			sc.Limit = pickLimit(r, sc.Frames)
			if sc.Limit == 0 && e.codec == "json" {
				sc.Limit = 1 << 20
			}
		}
		sc.Faulted = r.Chance(1, 5)
		return sc
	}
	return nil
}

func genCodecScenario(r *core.Rand, run int) *CodecScenario {
	if sc := denseScenario(r, run); sc != nil {
		return sc
	}
	sc := &CodecScenario{CutAt: -1, ErrAt: -1}
	sc.Codec = []string{"proto", "json", "body"}[run%3]
	sc.InitCap = r.Pick(0, 0, 1, 2, 3, 5, 8, 9, 10, 16, 63, 64, 65, 128, 1024, 4096)
	sc.ZeroReads = r.Chance(1, 3)
	sc.EOFData = r.Chance(1, 2)
	sc.FreshBufs = r.Chance(1, 3)
	sizes := []int{0, 0, 1, 1, 2, 3, 7, 8, 9, 15, 16, 17, 63, 64, 65, 127, 128, 129, 200, 255, 256, 300, 1000, 16383, 16384, 16385}
	nmsgs := r.Intn(7)
	switch sc.Codec {
	case "proto":
		sc.ViaWriter = r.Chance(1, 2)
		for i := 0; i < nmsgs; i++ {
			n := sizes[r.Intn(len(sizes))]
			if r.Chance(1, 6) {
				n = sc.InitCap + r.Pick(-1, 0, 1)
				if n < 0 {
					n = 0
				}
			}
			f := codecFrame{Payload: patternBytes(r.U64(), n), Size: uint64(n)}
			if sc.ViaWriter {
				f.Prefix = nil // produced by WriteNext
			} else {
				min := protowire.SizeVarint(uint64(n))
				width := min
				if r.Chance(1, 2) {
					width = min + r.Intn(10-min+1) // non-minimal, up to 10 bytes
				}
				f.Prefix = appendNonMinimalVarint(nil, uint64(n), width)
			}
			sc.Frames = append(sc.Frames, f)
		}
		// limits around a message size
		sc.Limit = pickLimit(r, sc.Frames)
		if !sc.ViaWriter && r.Chance(1, 4) {
			// Terminal frame whose prefix is huge or malformed. Nothing can
			// follow it, so it goes last.
			var f codecFrame
			switch r.Intn(5) {
			case 0: // >= 2^63: does not fit a platform int
				f.Size = 1<<63 + uint64(r.Intn(1000))
				f.Prefix = protowire.AppendVarint(nil, f.Size)
			case 1:
				f.Size = math.MaxUint64
				f.Prefix = protowire.AppendVarint(nil, f.Size)
			case 2: // 10 bytes, overflows uint64
				f.Prefix = []byte{0xff, 0xff, 0xff, 0xff, 0xff, 0xff, 0xff, 0xff, 0xff, 0x7f}
				f.BadSize = true
				if r.Chance(2, 3) {
					// ... whose low 64 bits are a small, plausible length (a
					// decoder that drops the bits above the 64th takes the
					// bytes that follow for a message): tenth byte 0x02..0x7f
					f.Prefix = []byte{byte(r.Intn(24)) | 0x80, 0x80, 0x80, 0x80, 0x80, 0x80, 0x80, 0x80, 0x80, byte(2 + r.Intn(0x7e))}
				}
			case 3: // 11 continuation bytes
				f.Prefix = bytes.Repeat([]byte{0x80}, 11)
				f.BadSize = true
			case 4: // fits an int but is far above the limit
				f.Size = 1<<31 + uint64(r.Intn(1<<20))
				f.Prefix = protowire.AppendVarint(nil, f.Size)
			}
			f.Payload = patternBytes(r.U64(), r.Intn(20))
			if sc.Limit == 0 {
				sc.Limit = 1 << 20 // "unlimited" with a huge prefix would just try to allocate it
			}
			sc.Frames = append(sc.Frames, f)
		}
	case "json":
		sc.ViaWriter = true
		for i := 0; i < nmsgs; i++ {
			target := 0
			if r.Chance(1, 3) {
				target = sizes[r.Intn(len(sizes))]
				if target > 2000 {
					target = 2000
				}
			}
			f := codecFrame{Payload: genJSONObject(r, target)}
			f.Size = uint64(len(f.Payload))
			if r.Chance(1, 5) {
				f.Sep = []byte([]string{" ", "\n", "\r\n", "\t ", "  \n"}[r.Intn(5)])
			}
			sc.Frames = append(sc.Frames, f)
		}
		sc.Limit = pickLimit(r, sc.Frames)
		if sc.Limit == 0 {
			sc.Limit = 1 << 20 // the JSON codec has no "unlimited"
		}
	case "body":
		sc.Limit = r.Pick(1, 2, 3, 5, 8, 16, 17, 64, 100, 256, 1000)
		mult := r.Intn(4)
		n := sc.Limit*mult + r.Pick(-1, 0, 1)
		if r.Chance(1, 4) {
			n = r.Intn(3 * sc.Limit)
		}
		if n < 0 {
			n = 0
		}
		sc.Body = patternBytes(r.U64(), n)
	}
	if r.Chance(1, 3) {
		sc.Faulted = true
	}
	return sc
}

func pickLimit(r *core.Rand, frames []codecFrame) int {
	if len(frames) == 0 || r.Chance(1, 3) {
		return r.Pick(0, 1, 16, 1<<20)
	}
	f := frames[r.Intn(len(frames))]
	n := len(f.Payload) + len(f.Sep) + r.Pick(-1, 0, 0, 1)
	if n < 0 {
		n = 0
	}
	return n
}

// ---- the run ---------------------------------------------------------------

type sliceWriter struct{ b []byte }

func (w *sliceWriter) Write(p []byte) (int, error) { w.b = append(w.b, p...); return len(p), nil }

func codecByName(name string) larking.StreamCodec {
	switch name {
	case "proto":
		return larking.CodecProto{}
	case "json":
		return larking.CodecJSON{}
	}
	return larking.VerifHTTPBodyCodec()
}

func runCodec(t *testing.T, rc *RunCtx) *RunResult {
	var sc *CodecScenario
	if rc.Replay {
		sc = &CodecScenario{}
		if err := json.Unmarshal(rc.Scenario, sc); err != nil {
			panic(err)
		}
	} else {
		sc = genCodecScenario(core.NewRand(rc.ScenarioSeed()), rc.Run)
	}
	tape := rc.NewTape()
	res := &RunResult{Scenario: sc}
	fail := func(rule, format string, args ...any) *RunResult {
		// context: codec plus the reader behaviours that actually occurred
		ctx := "codec=" + sc.Codec
		if res.Counters[cEOFWithData] > 0 {
			ctx += ",eof-with-data"
		}
		if res.Counters[cReadError] > 0 {
			ctx += ",read-error"
		}
		if sc.CutAt >= 0 {
			ctx += ",cut"
		}
		res.Violation = violationf("C17", rule, ctx, format, args...)
		res.Tape = tape.Recorded()
		res.Digest = core.Mix(core.HashString(rule), uint64(len(res.Tape)), uint64(res.Steps))
		return res
	}
	codec := codecByName(sc.Codec)

	// Build the byte stream, and where each frame starts/ends in it.
	type span struct{ start, msgStart, end int }
	var spans []span
	var w sliceWriter
	if sc.Codec == "body" {
		w.b = append(w.b, sc.Body...)
	} else {
		for i := range sc.Frames {
			f := &sc.Frames[i]
			sp := span{start: len(w.b)}
			w.b = append(w.b, f.Sep...)
			if f.Prefix != nil {
				w.b = append(w.b, f.Prefix...)
				sp.msgStart = len(w.b)
				w.b = append(w.b, f.Payload...)
			} else {
				before := len(w.b)
				if _, err := codec.WriteNext(&w, f.Payload); err != nil {
					return fail("write-next-error", "WriteNext: %v", err)
				}
				sp.msgStart = len(w.b) - len(f.Payload)
				if sc.Codec == "json" {
					sp.msgStart = before
				}
			}
			sp.end = len(w.b)
			spans = append(spans, sp)
		}
	}
	stream := w.b
	sc.Stream = stream

	// Faults are placed by the tape (so that shrinking the tape moves them)
	// but only in the faulted class.
	end := len(stream)
	cut, errAt := -1, -1
	if sc.Faulted && len(stream) > 0 {
		o := tape.Draw(len(stream) + 1)
		if tape.Draw(2) == 0 {
			cut = o
		} else {
			errAt = o
		}
	}
	sc.CutAt, sc.ErrAt = cut, errAt
	if cut >= 0 && cut < end {
		end = cut
	}
	rd := &fragReader{data: stream, end: end, end0: len(stream), errAt: errAt, tape: tape, sc: sc, cnt: &res.Counters}
	if errAt >= 0 && errAt < end {
		end = errAt
	}
	// 'end' is now the length of the prefix of the stream that can be delivered.

	buf := make([]byte, 0, sc.InitCap)
	var carry []byte
	off := 0 // stream offset of the first byte not yet handed out in a message
	delivered := 0
	var sizesSeen []int
	finished := false

	for call := 0; call < len(sc.Frames)+len(stream)+8 && !finished; call++ {
		if len(carry) > 0 {
			res.Counters[cCarryNonEmpty]++
		}
		if sc.FreshBufs && tape.Chance(1, 3) {
			buf = make([]byte, 0, []int{0, 1, 4, 64, 512}[tape.Draw(5)])
			res.Counters[cFreshBuffer]++
		}
		in := append(buf[:0], carry...)
		rdBefore := rd.pos
		if !bytes.Equal(carry, stream[off:rdBefore]) {
			panic(fmt.Sprintf("harness: carry invariant broken: off=%d rd=%d carry=%d", off, rdBefore, len(carry)))
		}
		var (
			dst      []byte
			n        int
			err      error
			panicked any
		)
		func() {
			defer func() { panicked = recover() }()
			dst, n, err = codec.ReadNext(in, rd, sc.Limit)
		}()
		res.Steps++
		if panicked != nil {
			return fail("panic", "ReadNext call %d panicked: %v (stream %s limit %d)", call, panicked, hexPreview(stream, 64), sc.Limit)
		}
		if n < 0 || n > len(dst) {
			return fail("bad-length", "ReadNext call %d returned n=%d with len(dst)=%d err=%v (stream %s limit %d)", call, n, len(dst), err, hexPreview(stream, 64), sc.Limit)
		}

		switch sc.Codec {
		case "body":
			// dst[:n] is the next chunk, dst[n:] the excess; both must be
			// stream bytes in order, whatever err is.
			if !bytes.Equal(dst, stream[off:rd.pos]) {
				return fail("conservation", "call %d: dst (%d bytes) is not stream[%d:%d]", call, len(dst), off, rd.pos)
			}
			if err == nil {
				if n != sc.Limit {
					return fail("chunk-size", "call %d: chunk of %d bytes returned without error, limit %d", call, n, sc.Limit)
				}
				res.Counters[cChunkBoundary]++
				sizesSeen = append(sizesSeen, n)
				off += n
				delivered += n
				carry = append(carry[:0], dst[n:]...)
				buf = dst
				continue
			}
			// Terminal call: the chunk that comes with the error is the last one.
			if n > sc.Limit {
				return fail("chunk-size", "call %d: final chunk %d bytes above limit %d", call, n, sc.Limit)
			}
			off += n
			delivered += n
			finished = true
			if errAt >= 0 && errAt <= end && rd.pos >= errAt {
				if err == io.EOF {
					return fail("error-as-eof", "transport error at offset %d surfaced as io.EOF", errAt)
				}
				break
			}
			if err != io.EOF {
				return fail("spurious-error", "call %d: unexpected error %v", call, err)
			}
			// Clean end of the upload (possibly cut short: for raw bytes a
			// cut is just a shorter upload). Everything delivered to the
			// reader must have been handed out: the mux does not call again
			// after io.EOF.
			if off != end {
				return fail("lost-bytes", "upload of %d bytes, limit %d: %d bytes handed out in chunks %v, %d bytes left in dst[n:] at io.EOF and never delivered", end, sc.Limit, delivered, append(sizesSeen, n), end-off)
			}
		default:
			k := len(sizesSeen) // index of the frame this call should return
			if err == nil {
				if k >= len(sc.Frames) {
					return fail("phantom-message", "call %d returned a message of %d bytes after the last frame", call, n)
				}
				f := sc.Frames[k]
				sp := spans[k]
				if sp.end > end {
					return fail("partial-message", "call %d returned %d bytes for frame %d which was cut at offset %d (frame spans %d..%d)", call, n, k, end, sp.start, sp.end)
				}
				if f.BadSize || f.Size != uint64(len(f.Payload)) {
					return fail("bad-prefix-accepted", "call %d returned n=%d for a frame whose prefix %x is malformed or announces %d bytes", call, n, f.Prefix, f.Size)
				}
				msgLen := len(f.Payload)
				if sc.Codec == "json" {
					msgLen += len(f.Sep)
				}
				if over := sc.Limit > 0 && len(f.Payload) > sc.Limit; over {
					return fail("over-limit-accepted", "call %d returned a %d byte message with limit %d", call, len(f.Payload), sc.Limit)
				}
				want := stream[sp.msgStart:sp.end]
				if sc.Codec == "json" {
					want = stream[sp.start:sp.end]
				}
				if !bytes.Equal(dst[:n], want) {
					return fail("message-mismatch", "call %d frame %d: got %s want %s", call, k, hexPreview(dst[:n], 48), hexPreview(want, 48))
				}
				if !bytes.Equal(dst[n:], stream[sp.end:rd.pos]) {
					return fail("conservation", "call %d frame %d: excess dst[n:] = %s, want stream[%d:%d] = %s", call, k, hexPreview(dst[n:], 48), sp.end, rd.pos, hexPreview(stream[sp.end:rd.pos], 48))
				}
				if len(f.Payload) == sc.Limit {
					res.Counters[cAtLimit]++
				}
				if f.Prefix != nil && len(f.Prefix) > protowire.SizeVarint(f.Size) {
					res.Counters[cNonMinimalPrefix]++
				}
				_ = msgLen
				sizesSeen = append(sizesSeen, n)
				off = sp.end
				carry = append(carry[:0], dst[n:]...)
				buf = dst
				continue
			}
			// err != nil: the stream is over as far as the caller is concerned.
			finished = true
			if n != 0 {
				return fail("data-with-error", "call %d returned n=%d together with error %v", call, n, err)
			}
			if k < len(sc.Frames) {
				f := sc.Frames[k]
				sp := spans[k]
				complete := sp.end <= end
				over := !f.BadSize && sc.Limit > 0 && f.Size > uint64(sc.Limit)
				if sc.Codec == "json" {
					// the codec counts separator bytes too: only demand
					// acceptance when even sep+object fits
					over = len(f.Payload) > sc.Limit
					if !over && len(f.Payload)+len(f.Sep) > sc.Limit {
						break // either outcome is acceptable
					}
				}
				huge := f.BadSize || f.Size > uint64(math.MaxInt)
				if f.Size > uint64(math.MaxInt) {
					res.Counters[cHugePrefix]++
				}
				// Was enough of the frame delivered for the codec to see that it is too big?
				prefixDelivered := sp.msgStart <= end
				if sc.Codec == "json" {
					prefixDelivered = end-sp.start >= sc.Limit
				}
				if over {
					res.Counters[cOverLimit]++
				}
				if complete && !over && !huge && f.Size == uint64(len(f.Payload)) {
					return fail("dropped-message", "call %d: frame %d (%d bytes, limit %d, fully delivered by offset %d) was not returned: err=%v", call, k, len(f.Payload), sc.Limit, sp.end, err)
				}
				if (over || huge) && prefixDelivered && err == io.EOF {
					return fail("over-limit-as-eof", "call %d: frame %d announces %d bytes (limit %d) and this surfaced as io.EOF", call, k, f.Size, sc.Limit)
				}
				if errAt >= 0 && rd.pos >= errAt && errAt <= end && err == io.EOF && !rd.gaveEOF {
					return fail("error-as-eof", "transport error at offset %d surfaced as io.EOF", errAt)
				}
				break
			}
			// All frames were returned: this must be the clean end of input.
			if errAt >= 0 && rd.pos >= errAt && !rd.gaveEOF {
				if err == io.EOF {
					return fail("error-as-eof", "transport error at offset %d surfaced as io.EOF", errAt)
				}
				break
			}
			if err != io.EOF {
				return fail("spurious-error", "after the last message: err=%v, want io.EOF", err)
			}
			if len(bytes.TrimSpace(dst)) != 0 {
				return fail("conservation", "end of input reported with %d unconsumed bytes in dst", len(dst))
			}
		}
	}
	if !finished {
		return fail("no-termination", "ReadNext never reported the end of the stream")
	}

	// Reach probes computed from where reads were split.
	for _, s := range rd.splits {
		for k, sp := range spans {
			f := sc.Frames[k]
			if sc.Codec == "proto" && s > sp.start && s < sp.msgStart {
				res.Counters[cSplitVarint]++
			}
			if sc.Codec == "json" && s > sp.start && s < sp.end {
				prev := stream[s-1]
				if prev == '\\' || prev >= 0x80 && stream[s] >= 0x80 && stream[s] < 0xc0 {
					res.Counters[cSplitJSONEscape]++
				}
			}
			_ = f
		}
	}
	if sc.Dense {
		res.Counters[cDensePartition]++
	}
	if cut >= 0 {
		mid := false
		for _, sp := range spans {
			if cut > sp.start && cut < sp.end {
				mid = true
			}
		}
		if mid {
			res.Counters[cCutMidMessage]++
		} else {
			res.Counters[cCleanCut]++
		}
	}
	res.Tape = tape.Recorded()
	res.Shape = fmt.Sprintf("%s/n=%d/limit=%s/cap=%s/fault=%v", sc.Codec, len(sc.Frames), limitClass(sc), capClass(sc.InitCap), faultClass(sc))
	h := uint64(1469598103934665603)
	for _, s := range rd.splits {
		h = (h ^ uint64(s)) * 1099511628211
	}
	res.SchedSig = core.Mix(h, uint64(len(stream)), uint64(rd.reads))
	res.Nontrivial = len(stream) > 0 && (len(rd.splits) > 0 || sc.Faulted)
	res.Digest = core.Mix(res.SchedSig, uint64(len(sizesSeen)), uint64(off))
	return res
}

func limitClass(sc *CodecScenario) string {
	if sc.Limit == 0 {
		return "0"
	}
	for _, f := range sc.Frames {
		switch d := len(f.Payload) - sc.Limit; {
		case d == 0:
			return "=msg"
		case d == 1:
			return "msg-1"
		case d == -1:
			return "msg+1"
		}
	}
	if sc.Limit >= 1<<20 {
		return "big"
	}
	return "other"
}

func capClass(c int) string {
	switch {
	case c == 0:
		return "0"
	case c < 10:
		return "<10"
	case c <= 64:
		return "<=64"
	}
	return ">64"
}

func faultClass(sc *CodecScenario) string {
	switch {
	case sc.CutAt >= 0:
		return "cut"
	case sc.ErrAt >= 0:
		return "err"
	}
	return "none"
}

func init() {
	shrinkers["C17"] = func(raw json.RawMessage) []json.RawMessage {
		var sc CodecScenario
		if json.Unmarshal(raw, &sc) != nil {
			return nil
		}
		var out []json.RawMessage
		emit := func(c CodecScenario) {
			b, _ := json.Marshal(&c)
			out = append(out, b)
		}
		for i := range sc.Frames { // drop a frame
			c := sc
			c.Frames = append(append([]codecFrame{}, sc.Frames[:i]...), sc.Frames[i+1:]...)
			emit(c)
		}
		for i, f := range sc.Frames { // halve a payload (proto only: json payloads must stay objects)
			if sc.Codec == "proto" && len(f.Payload) > 0 && f.Size == uint64(len(f.Payload)) {
				c := sc
				c.Frames = append([]codecFrame{}, sc.Frames...)
				nf := f
				nf.Payload = f.Payload[:len(f.Payload)/2]
				nf.Size = uint64(len(nf.Payload))
				if f.Prefix != nil {
					nf.Prefix = protowire.AppendVarint(nil, nf.Size)
				}
				c.Frames[i] = nf
				emit(c)
			}
			if len(f.Sep) > 0 {
				c := sc
				c.Frames = append([]codecFrame{}, sc.Frames...)
				nf := f
				nf.Sep = nil
				c.Frames[i] = nf
				emit(c)
			}
		}
		if len(sc.Body) > 0 {
			c := sc
			c.Body = sc.Body[:len(sc.Body)/2]
			emit(c)
			c = sc
			c.Body = sc.Body[:len(sc.Body)-1]
			emit(c)
		}
		for _, f := range []func(*CodecScenario) bool{
			func(c *CodecScenario) bool { ok := c.ZeroReads; c.ZeroReads = false; return ok },
			func(c *CodecScenario) bool { ok := c.EOFData; c.EOFData = false; return ok },
			func(c *CodecScenario) bool { ok := c.FreshBufs; c.FreshBufs = false; return ok },
			func(c *CodecScenario) bool { ok := c.Faulted; c.Faulted = false; return ok },
			func(c *CodecScenario) bool { ok := c.InitCap != 0; c.InitCap = 0; return ok },
		} {
			c := sc
			if f(&c) {
				emit(c)
			}
		}
		return out
	}
}
