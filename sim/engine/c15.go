package engine

import (
	"context"
	"fmt"
	"io"
	"strconv"
	"strings"
	"testing"
	"time"

	"google.golang.org/grpc/codes"

	"verif/sim/core"
)

// C15 — gRPC deadlines and cancellation reach the handler (muxsim on the fake
// clock). Two run classes: (a) grpc-timeout strings with the clock pushed to
// T-1ns and T; (b) client abort placed by the tape at every kind of instant.

func init() {
	engines["C15"] = runC15
	shrinkers["C15"] = shrinkMuxScenario
}

var timeoutUnits = map[byte]time.Duration{'H': time.Hour, 'M': time.Minute, 'S': time.Second, 'm': time.Millisecond, 'u': time.Microsecond, 'n': time.Nanosecond}

// timeoutModel is the reference reading of the grpc-timeout grammar:
// 1..8 ASCII digits followed by one unit. judged=false marks values the
// property does not settle (a leading sign: outside the grammar, accepted by
// grpc-go's own parser).
func timeoutModel(s string) (d time.Duration, overflow, legal, judged bool) {
	if s != "" && (s[0] == '+' || s[0] == '-') {
		return 0, false, false, false
	}
	if len(s) < 2 || len(s) > 9 {
		return 0, false, false, true
	}
	unit, ok := timeoutUnits[s[len(s)-1]]
	if !ok {
		return 0, false, false, true
	}
	var n int64
	for i := 0; i < len(s)-1; i++ {
		c := s[i]
		if c < '0' || c > '9' {
			return 0, false, false, true
		}
		n = n*10 + int64(c-'0')
	}
	const maxNs = int64(^uint64(0) >> 1)
	if n > maxNs/int64(unit) {
		return 0, true, true, true
	}
	return time.Duration(n) * unit, false, true, true
}

func genTimeout(r *core.Rand) string {
	units := "HMSmun"
	digits := func(n int) string {
		var b strings.Builder
		for i := 0; i < n; i++ {
			b.WriteByte(byte('0' + r.Intn(10)))
		}
		return b.String()
	}
	u := string(units[r.Intn(len(units))])
	switch r.Intn(16) {
	case 0: // leading zeros
		return strings.Repeat("0", 1+r.Intn(7)) + strconv.Itoa(r.Intn(10)) + u
	case 1: // 8 digits
		return digits(8) + u
	case 2: // overflowing hours
		return strconv.Itoa(2562048+r.Intn(90000000)) + "H"
	case 3: // largest non-overflowing hours and neighbours
		return r.PickS("", "0") + strconv.Itoa(r.Pick(2562046, 2562047, 2562048, 2562049)) + "H"
	case 4: // zero
		return strings.Repeat("0", 1+r.Intn(8)) + u
	case 5: // malformed: no number
		return u
	case 6: // malformed: 9+ digits
		return digits(9+r.Intn(3)) + u
	case 7: // malformed: unknown / missing unit
		return digits(1+r.Intn(7)) + r.PickS("s", "h", "x", "ms", "", "µ", "N", "U")
	case 8: // malformed: embedded space or non-digit
		return r.PickS("1 2S", "1a2S", "1.5S", "0x10S", "1_0m", "1e3S", "12 m", "٣S",
			// ... or more than one unit letter, a unit in front, digits after the unit
			"5mS", "10SS", "1nH", "7uM", "3HH", "S5", "5S5", "1H2M", "5 S", " 5S", "5S ")
	case 9: // signed: not judged
		return r.PickS("+", "-") + digits(1+r.Intn(6)) + u
	default:
		return digits(1+r.Intn(8)) + u
	}
}

func genC15(r *core.Rand, run int) *MuxScenario {
	sc := &MuxScenario{Prop: "C15", Knobs: genKnobs(r)}
	sc.Knobs.MaxRecv = r.Pick(1024, 4096, 65536)
	if run%2 == 0 {
		// (a) deadlines
		proto := r.PickS("grpc", "grpc", "grpcweb", "grpcwebtext")
		sp := ReqSpec{ID: 1, Proto: proto, Codec: r.PickS("proto", "proto", "json"), Method: r.PickS("unary", "server", "bidi", "client"), Weight: 2}
		sp.Timeout = genTimeout(r)
		mi := methods[sp.Method]
		n := 1
		if mi.ClientS {
			n = r.Intn(3)
		}
		for i := 0; i < n; i++ {
			sp.Msgs = append(sp.Msgs, MsgSpec{Size: r.Pick(0, 1, 20, 100), Seed: r.U64() >> 8})
		}
		h := HandlerSpec{FailCode: int(codes.Aborted), Code: int(codes.DeadlineExceeded), Msg: "too late"}
		h.Resps = []MsgSpec{{Size: 8, Seed: r.U64() >> 8}}
		switch mi.Shape() {
		case "unary":
			h.Steps = []HStep{{Op: "waitctx"}}
		default:
			if r.Chance(1, 2) {
				h.Steps = []HStep{{Op: "recv"}, {Op: "waitctx"}}
			} else {
				h.Steps = []HStep{{Op: "waitctx"}}
			}
		}
		sp.Handler = h
		if strings.HasPrefix(proto, "grpc") && r.Chance(1, 20) { // (a run with a backend costs as much as fifty without)
			// the method lives on a backend: the deadline has to travel on
			sc.Backends = []BackendSpec{{Tag: "b1", Services: []string{tsvc}}}
			sc.Local = []string{"larking.testpb.ChatRoom"}
			sp.Backend = "b1"
		}
		if mi.ClientS && (sp.Backend != "" && len(sp.Msgs) >= 1 || sp.Backend == "" && len(h.Steps) == 1) && r.Chance(1, 3) {
			// (not with a local handler that sits in Recv: a read of the
			// request body is not something a deadline can interrupt, and the
			// property promises release on cancellation and disconnect only; the
			// stream forwarder sits in Recv until the first message has come)
			// the client keeps its request stream open until it has been told
			// how the call ended: the deadline has to end the call by itself
			sp.LateClose = true
		}
		sc.Reqs = []ReqSpec{sp}
		sc.Note = "deadline"
		const farAway = 100 * 365 * 24 * time.Hour // beyond this the fake clock itself cannot be pushed
		if d, overflow, legal, judged := timeoutModel(sp.Timeout); legal && judged && !overflow && d > farAway {
			sc.Clock = []int64{int64(1000 * time.Hour)}
			sp.Fault.Kind = "abort" // the deadline value is judged, its expiry cannot be visited
			sc.Reqs[0] = sp
		} else if legal && judged && !overflow {
			// visit T-1ns and T, then leave room
			if d > 1 {
				sc.Clock = []int64{int64(d) - 1, 1, int64(time.Second)}
			} else {
				sc.Clock = []int64{int64(d), int64(time.Second)}
			}
		} else if !judged {
			// may or may not have a deadline: push the clock far enough to end it
			sc.Clock = []int64{int64(200 * 365 * 24 * time.Hour)}
			sp.Fault.Kind = "abort" // and make sure the run ends either way
			sc.Reqs[0] = sp
		} else if overflow {
			sc.Clock = []int64{int64(1000 * time.Hour)}
			sp.Fault.Kind = "abort" // the deadline is centuries away: the client eventually leaves
			sc.Reqs[0] = sp
		}
		return sc
	}
	// (b) cancellation
	sc.Note = "cancel"
	combos := []struct{ proto, codec, method string }{
		{"grpc", "proto", "unary"}, {"grpc", "proto", "client"}, {"grpc", "proto", "server"}, {"grpc", "proto", "bidi"}, {"grpc", "json", "bidi"},
		{"grpcweb", "proto", "unary"}, {"grpcweb", "proto", "server"}, {"grpcweb", "proto", "bidi"}, {"grpcwebtext", "proto", "bidi"},
		{"http", "json", "unary"}, {"http", "json", "client"}, {"http", "json", "server"}, {"http", "json", "bidi"}, {"http", "proto", "bidi"}, {"http", "proto", "client"},
		{"ws", "json", "chat"}, {"ws", "json", "bidi"},
		{"http", "body", "files"},
	}
	c := combos[r.Intn(len(combos))]
	sp := ReqSpec{ID: 1, Proto: c.proto, Codec: c.codec, Method: c.method, Weight: 2}
	if c.proto == "ws" {
		sp.PathVar, sp.WSClose = "lobby", "normal"
	}
	mi := methods[sp.Method]
	n := 1
	if mi.ClientS {
		n = 1 + r.Intn(5)
	}
	for i := 0; i < n; i++ {
		sp.Msgs = append(sp.Msgs, MsgSpec{Size: r.Pick(0, 1, 20, 64, 300), Seed: r.U64() >> 8})
	}
	h := HandlerSpec{FailCode: int(codes.Aborted)}
	nresp := 1
	if mi.ServerS {
		nresp = 1 + r.Intn(5)
	}
	for i := 0; i < nresp; i++ {
		h.Resps = append(h.Resps, MsgSpec{Size: r.Pick(0, 8, 100, 400, 400, 5000), Seed: r.U64() >> 8})
	}
	// (the compressed send path is a path of its own: prefix and payload are
	// written from the compression buffer)
	sp.Compress = strings.HasPrefix(c.proto, "grpc") && r.Chance(1, 3)
	switch mi.Shape() {
	case "unary":
		h.Steps = []HStep{{Op: "waitctx"}}
	case "client":
		h.Steps = [][]HStep{{{Op: "recvall"}, {Op: "waitctx"}, {Op: "sendall"}}, {{Op: "recvall"}, {Op: "sendall"}}}[r.Intn(2)]
	case "server":
		h.Steps = [][]HStep{{{Op: "recv"}, {Op: "sendall"}, {Op: "waitctx"}}, {{Op: "recv"}, {Op: "sendall"}}}[r.Intn(2)]
	default:
		h.Steps = [][]HStep{
			{{Op: "echo"}, {Op: "sendall"}, {Op: "waitctx"}},
			{{Op: "recvall"}, {Op: "sendall"}},
			{{Op: "sendall"}, {Op: "recvall"}, {Op: "waitctx"}},
			{{Op: "echo"}},
		}[r.Intn(4)]
	}
	sp.Handler = h
	sp.Fault.Kind = "abort"
	sp.Slash = c.proto == "http" && r.Chance(1, 3)
	sp.Fault.When = r.PickS("", "", "recv", "recv", "send", "early")
	if r.Chance(1, 2) || sp.Fault.When == "send" {
		sp.Window = r.Pick(1, 16, 64) // makes the handler park inside Send
	}
	sp.PingPong = mi.Shape() == "bidi" && hasOp(h, "echo") && r.Chance(1, 2)
	if sp.Fault.When == "recv" {
		sp.Weight, sp.CWeight = 6, 1 // a slow client: the handler gets ahead and blocks on an empty body
	}
	sp.ZeroReads = r.Chance(1, 5)
	sp.EOFData = r.Chance(1, 4)
	if (c.proto == "http" || strings.HasPrefix(c.proto, "grpcweb")) && r.Chance(1, 2) {
		sp.Fault.Err = "ueof" // HTTP/1.1: the broken body reads as io.ErrUnexpectedEOF
	}
	if c.codec == "body" {
		// an upload in chunks of the receive limit; the handler reads chunk by chunk
		sp.PathVar = "cat.jpg"
		sp.Msgs = []MsgSpec{{Size: r.Pick(1, 63, 64, 65, 200, 700), Seed: r.U64() >> 8}}
		sc.Knobs.MaxRecv = r.Pick(64, 100, 256)
		sp.Handler.Steps = [][]HStep{
			{{Op: "recvall"}, {Op: "sendall"}}, {{Op: "recvall"}, {Op: "waitctx"}, {Op: "sendall"}},
			// ... or through the io.Reader of AsHTTPBodyReader, piece by piece
			{{Op: "bodyreader"}, {Op: "sendall"}}, {{Op: "bodyreader"}, {Op: "waitctx"}, {Op: "sendall"}},
		}[r.Intn(4)]
		sp.Handler.Resps = sp.Handler.Resps[:1]
		sp.PingPong = false
	}
	sc.Reqs = []ReqSpec{sp}
	fitLimits(sc)
	return sc
}

func runC15(t *testing.T, rc *RunCtx) *RunResult {
	sc := loadMuxScenario(rc, genC15)
	tape := rc.NewTape()
	mr := runMuxScenario(t, sc, tape)
	res := &RunResult{}
	mr.fill(res, tape)
	rs := mr.reqs[0]
	res.Shape = sc.Note + "/" + mr.contextKey(rs)
	if sc.Note == "deadline" {
		d, ov, legal, judged := timeoutModel(rs.spec.Timeout)
		res.Shape += fmt.Sprintf("/legal=%v/ov=%v/j=%v/len=%d/u=%s/zero=%v", legal, ov, judged, len(rs.spec.Timeout), lastByte(rs.spec.Timeout), d == 0)
		res.Nontrivial = true
		res.Violation = oracleDeadline(mr, rs, &res.Counters)
	} else {
		res.Shape += "/at=" + strings.TrimSpace(rs.abortInfo)
		res.Nontrivial = rs.abortedAt >= 0
		res.Violation = oracleCancel(mr, rs, &res.Counters)
	}
	return res
}

func lastByte(s string) string {
	if s == "" {
		return ""
	}
	return s[len(s)-1:]
}

func oracleDeadline(mr *muxRun, rs *reqState, cnt *[core.NumCounters]int) *Violation {
	if v := mr.globalInvariants("C15"); v != nil {
		return v
	}
	sp := rs.spec
	l := rs.log()
	proxied := sp.Backend != ""
	ctx := "deadline/" + sp.Proto + "/" + rs.method.Shape()
	if proxied {
		ctx += "+proxied"
	}
	resp := rs.q.response()
	fail := func(rule, format string, args ...any) *Violation {
		return violationf("C15", rule, ctx, "grpc-timeout %q: "+format, append([]any{sp.Timeout}, args...)...)
	}
	d, overflow, legal, judged := timeoutModel(sp.Timeout)
	if !judged {
		cnt[cUnjudgedTimeout]++
		return nil
	}
	if !legal {
		cnt[cMalformedTimeout]++
		if l.Entered {
			return fail("malformed-timeout-accepted", "the handler was invoked (deadline set: %v, %v after receipt)", l.HasDeadline, l.Deadline-rs.requestTime)
		}
		cv := rs.decodeResponse(resp)
		if resp.Status < 400 && !(cv.Status.Present && cv.Status.Code != 0) {
			return fail("malformed-timeout-no-error", "the client got HTTP %d without an error status", resp.Status)
		}
		return nil
	}
	if !l.Entered && d == 0 && !overflow {
		// already expired on arrival: failing the call before the handler is
		// fine (which status the client then sees is C05's subject)
		return nil
	}
	if !l.Entered && rs.abortedAt >= 0 {
		return nil // the client of this far-away deadline left before dispatch
	}
	if !l.Entered {
		return fail("legal-timeout-refused", "the handler was not invoked; HTTP %d body %q", resp.Status, string(resp.Body[:min(len(resp.Body), 120)]))
	}
	if !l.HasDeadline {
		return fail("no-deadline", "the handler's context has no deadline")
	}
	got := l.Deadline - rs.requestTime
	if overflow {
		cnt[cDeadlineOverflow]++
		if got < 2562047*time.Hour {
			return fail("overflow-deadline-too-early", "the value overflows; the handler's deadline is only %v after receipt", got)
		}
		return nil
	}
	cnt[cDeadlineExact]++
	if proxied {
		// the deadline reaches the backend as a grpc-timeout that grpc-go
		// rounds up to a unit in which the value has at most eight digits
		upper := d + d/10000 + time.Microsecond
		if upper < d {
			upper = time.Duration(1<<63 - 1) // (saturates for the largest values)
		}
		if got < d || got > upper {
			return fail("deadline-mismatch", "the backend handler's deadline is %v after receipt, want %v (or that rounded up to the unit grpc-go sends it in)", got, d)
		}
		return nil // when and how the backend's context ends is between the proxy and grpc-go
	}
	if got != d {
		return fail("deadline-mismatch", "the handler's deadline is %v after receipt, want %v", got, d)
	}
	if l.CtxWaited && sp.Fault.Kind == "" {
		if at := l.CtxDoneAt - rs.requestTime; at != d {
			return fail("context-ended-at-wrong-time", "the handler's context ended %v after receipt, want exactly %v (the clock visited T-1ns and T)", at, d)
		}
		if l.CtxDoneErr != context.DeadlineExceeded {
			return fail("context-wrong-error", "the handler's context ended with %v, want DeadlineExceeded", l.CtxDoneErr)
		}
	}
	return nil
}

func oracleCancel(mr *muxRun, rs *reqState, cnt *[core.NumCounters]int) *Violation {
	if v := mr.globalInvariants("C15"); v != nil {
		return v
	}
	sp := rs.spec
	l := &rs.hlog
	ctx := "cancel/" + sp.Proto + "+" + sp.Codec + "/" + rs.method.Shape()
	fail := func(rule, format string, args ...any) *Violation {
		return violationf("C15", rule, ctx, "abort at step %d (%s): "+format, append([]any{rs.abortedAt, strings.TrimSpace(rs.abortInfo)}, args...)...)
	}
	if rs.abortedAt < 0 {
		return nil // the call completed before the abort was scheduled
	}
	info := rs.abortInfo
	switch {
	case strings.Contains(info, "before-handler"):
		cnt[cAbortBeforeFirst]++
	case strings.Contains(info, "after-return"):
		cnt[cAbortAfterReturn]++
	}
	if !l.Entered {
		return nil
	}
	// the context is done every time it is observed after the abort
	if rs.ctxCancelAt < 0 || rs.ioBrokenAt < 0 {
		return nil // the run ended between the two halves of the disconnect
	}
	for _, o := range l.Obs {
		if o.Step > rs.ctxCancelAt && !o.Done {
			return fail("context-live-after-abort", "the handler's context was still live when observed at step %d", o.Step)
		}
	}
	if l.CtxWaited && l.CtxDoneErr == nil {
		return fail("context-live-after-abort", "ctx.Done fired without an error")
	}
	// gRPC and gRPC-web: every stream call checks the stream's context first,
	// so a Send or Recv that starts after the cancellation fails (over
	// net/http a small Write to a dead connection would otherwise report
	// success for ever)
	if strings.HasPrefix(sp.Proto, "grpc") {
		for _, c := range l.Calls {
			if c.Start > rs.ctxCancelAt && c.Err == nil {
				return fail("stream-call-after-cancel-succeeded", "a %s that started at step %d, after the context had been cancelled at step %d, returned nil", map[byte]string{'R': "Recv", 'S': "Send"}[c.Kind], c.Start, rs.ctxCancelAt)
			}
		}
	}
	// an upload read through AsHTTPBodyReader never ends cleanly short of its
	// last byte
	if hasOp(sp.Handler, "bodyreader") && l.RecvEOF && l.BodyReadErr == nil {
		total := 0
		for _, m := range sp.Msgs {
			total += m.Size
		}
		if len(l.BodyRead) < total {
			return fail("abort-as-eof", "the reader obtained from AsHTTPBodyReader reported a clean end of the upload after %d of %d bytes; the client had gone away", len(l.BodyRead), total)
		}
	}
	// the call that was blocked at the abort is released with an error
	for _, c := range l.Calls {
		if !(c.Start <= rs.ioBrokenAt && c.End > rs.ioBrokenAt) {
			continue
		}
		if c.Kind == 'R' && strings.Contains(info, "handler-in-recv") && strings.Contains(info, "read-parked") && rs.q.inPendingAt == 0 {
			cnt[cAbortWhileRecvParked]++
			if c.Err == nil {
				return fail("blocked-recv-not-released-with-error", "the Recv blocked on an empty body returned a message")
			}
			if c.Err == io.EOF {
				return fail("abort-as-eof", "the Recv blocked on an empty body returned io.EOF: the disconnect looks like a clean end of stream")
			}
		}
		if c.Kind == 'S' && strings.Contains(info, "handler-in-send") && strings.Contains(info, "write-parked") && rs.q.writeStalledAt {
			cnt[cAbortWhileSendParked]++
			if c.Err == nil {
				return fail("blocked-send-not-released-with-error", "the Send blocked on a stalled connection returned nil")
			}
		}
	}
	return nil
}
