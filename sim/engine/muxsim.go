package engine

import (
	"google.golang.org/grpc/interop/grpc_testing"
	"larking.io/api/testpb"
	"context"
	"encoding/base64"
	"fmt"
	"io"
	"math/rand"
	"net/http"
	"net/url"
	"runtime"
	"runtime/debug"
	"sort"
	"strconv"

	"google.golang.org/protobuf/encoding/protowire"
	"strings"
	"testing"
	"testing/synctest"
	"time"

	"github.com/gobwas/ws"
	"google.golang.org/genproto/googleapis/api/annotations"
	"google.golang.org/genproto/googleapis/api/serviceconfig"
	"google.golang.org/grpc"
	"google.golang.org/grpc/codes"
	"google.golang.org/grpc/metadata"
	"google.golang.org/grpc/stats"
	"google.golang.org/grpc/status"
	"google.golang.org/protobuf/encoding/protojson"
	"google.golang.org/protobuf/proto"
	"larking.io/larking"

	"verif/sim/core"
	"verif/sim/wire"
)

// ---- scenario ----------------------------------------------------------------

type Knobs struct {
	MaxRecv   int   `json:"max_recv"`
	Stats     bool  `json:"stats"`
	UnaryInt  bool  `json:"unary_interceptor"`
	StreamInt bool  `json:"stream_interceptor"`
	WarmBytes []int `json:"warm_bytes,omitempty"` // capacities pre-loaded into bytesPool
	WarmBufs  []int `json:"warm_bufs,omitempty"`
	ExtraCodecs int `json:"extra_codecs,omitempty"` // additional content types registered with CodecOption (changes len/cap of the mux's shared offer lists)
}

type ReqFault struct {
	Kind string `json:"kind,omitempty"` // "" | cut | readerr | abort | wbreak
	// When biases abort/wbreak towards an instant with in-flight state:
	// "" (any step after arming) | recv (handler blocked in Recv on an empty
	// body) | send (handler blocked in Send on a stalled connection) | early
	// (before the handler was entered)
	When string `json:"when,omitempty"`
	// Err: what a body Read reports once the transport is broken: "" (an
	// opaque error, as HTTP/2 gives) | ueof (io.ErrUnexpectedEOF, which is what
	// net/http's HTTP/1.1 bodies - chunked or with a Content-Length - return
	// when the connection goes away)
	Err string `json:"err,omitempty"`
}

type ReqSpec struct {
	ID        int         `json:"id"`
	Proto     string      `json:"proto"`  // grpc | grpcweb | grpcwebtext | http | ws
	Codec     string      `json:"codec"`  // proto | json | body
	Method    string      `json:"method"` // key of the methods table
	PathVar   string      `json:"path_var,omitempty"`
	Compress  bool        `json:"compress,omitempty"`
	Msgs      []MsgSpec   `json:"msgs"`
	Sep       string      `json:"sep,omitempty"` // json streams: separator between objects
	BodyCT    string      `json:"body_ct,omitempty"` // HttpBody uploads over plain HTTP: the request's Content-Type ("" = image/jpeg); also media types for which a message codec is registered
	Accept    string      `json:"accept,omitempty"` // plain HTTP: ask for the response as json | proto (an Accept header; may differ from the request's own Content-Type) | other (text/html: matches nothing, the response follows the request's own Content-Type)
	SepEnd    bool        `json:"sep_end,omitempty"` // ... and after the last one too (newline-delimited JSON ends every line with its newline)
	Timeout   string      `json:"timeout,omitempty"`
	PingPong  bool        `json:"ping_pong,omitempty"`
	ServerFirst bool      `json:"server_first,omitempty"` // bidi: the server speaks first - the client sends its first message only after the first answer has reached it
	TwinOf    int         `json:"twin_of,omitempty"`   // C10: the same call script run directly against the backend (not through larking)
	Poison    bool        `json:"poison,omitempty"` // gRPC: one frame flagged compressed whose payload is not gzip at all (this request is expected to fail; it is there for what it does to shared state)
	Slash     bool        `json:"trailing_slash,omitempty"` // plain HTTP: the URL ends in "/" (the mux trims it before routing)
	LateClose bool        `json:"late_close,omitempty"` // the client half-closes only after it has seen the call end (it waits for the server's verdict first)
	Handler   HandlerSpec `json:"handler"`
	Fault     ReqFault    `json:"fault"`
	Window    int         `json:"window,omitempty"`
	ZeroReads bool        `json:"zero_reads,omitempty"`
	EOFData   bool        `json:"eof_data,omitempty"`
	Weight    int         `json:"weight,omitempty"`
	CWeight   int         `json:"client_weight,omitempty"` // scheduler weight of the client task (default: Weight)
	AcceptGzip bool       `json:"accept_gzip,omitempty"` // plain HTTP: the client sends Accept-Encoding: gzip (and inflates a response that says it is gzip)
	CTParam   bool        `json:"ct_param,omitempty"` // plain HTTP: the Content-Type carries a parameter ("; charset=utf-8"). Whether such a request is served or refused is not judged (content negotiation is C03/C04's); it is there for what looking its codec up does to shared state
	LazyCtx   bool        `json:"lazy_ctx,omitempty"` // duplex script of a local handler: nobody calls stream.Context() before the two goroutines exist, and then both do (whatever the stream sets up on first use is first used from two goroutines)
	WSClose   string      `json:"ws_close,omitempty"` // normal | none | away
	WSDuplex  bool        `json:"ws_duplex,omitempty"` // WebSocket, two-goroutine handler: the client sends its close frame only after the handler has made all its sends (there is no half-close)
	Backend   string      `json:"backend,omitempty"`  // proxied through this backend ("" = local)
	Route     string      `json:"route,omitempty"`    // http: "" (annotated if the method has one) | implicit
	Round     int         `json:"round,omitempty"`    // registrysim: probe of the round after this many registrar operations (0: not gated)
	Raw       *RawProbe   `json:"raw,omitempty"`      // C16: a request given by verb and path
	MD        [][2]string `json:"md,omitempty"`       // extra request metadata
}

func (sp *ReqSpec) bodyCT() string {
	if sp.BodyCT != "" {
		return sp.BodyCT
	}
	return "image/jpeg"
}

// payloadID: a direct twin sends and expects the payloads of the request it mirrors.
func (sp *ReqSpec) payloadID() int {
	if sp.TwinOf != 0 {
		return sp.TwinOf
	}
	return sp.ID
}

type MuxScenario struct {
	Prop     string         `json:"prop"`
	Knobs    Knobs          `json:"knobs"`
	Reqs     []ReqSpec      `json:"reqs"`
	Backends []BackendSpec  `json:"backends,omitempty"`
	Local    []string       `json:"local,omitempty"`         // local services (nil: all of localServices; ["-"]: none)
	SkipRegister bool       `json:"skip_register,omitempty"` // backends are started but not registered (registrysim does it itself)
	Pre        []RegOp      `json:"pre,omitempty"` // registrations done before any task starts
	Rules      []RuleSpec   `json:"rules,omitempty"` // service-config HTTP rules of the mux (C16)
	NoDefaultRules bool     `json:"no_default_rules,omitempty"`
	Registrars [][]RegOp    `json:"registrars,omitempty"`
	Sequential bool         `json:"sequential,omitempty"` // probes and registrar operations never overlap
	Monitor    int          `json:"monitor,omitempty"`    // number of snapshot captures by the monitor task
	Clock    []int64        `json:"clock_ns,omitempty"` // planned clock jumps (C15)
	Note     string         `json:"note,omitempty"`
	Sched    *core.SchedPolicy `json:"sched,omitempty"` // how the driver picks among enabled operations (nil: weighted uniform)
}

// ---- per-request runtime state -------------------------------------------------

type reqState struct {
	spec   *ReqSpec
	method *methodInfo
	q      *ReqIO
	sim    *core.Sim
	mr     *muxRun

	cSlot, hSlot, sSlot, fSlot, kSlot, bSlot, h2Slot *core.Slot

	httpReq *http.Request
	wire    []byte
	bounds  []int // wire offset just after message i
	rawBounds []int // grpc-web-text: the same offsets before base64
	end     int   // number of wire bytes that will be delivered
	cutMid  bool  // the delivered prefix ends inside a message

	hlog HLog // local handler (or the proxy-side view is not scripted)
	blog HLog // backend handler, when proxied
	direct   directResult // what a direct twin's grpc-go client saw
	servedBy []string // tags of the handlers that were entered for this request
	servedMethods []string // full names of the methods that were entered

	sent        int
	abortedAt   int // sim step of the abort (-1)
	ioBrokenAt  int // step at which reads and writes started to fail (-1)
	ctxCancelAt int // step at which the request context was cancelled (-1)
	abortInfo   string
	panicVal    any
	panicStack  string
	srvStarted  bool
	invokeStep, returnStep int
	requestTime time.Duration

	// mirrors
	mClientDone bool
	mSent       int
	mFaultDone  bool
}

//go:norace
func (r *reqState) setClientDone() { r.mClientDone = true }

//go:norace
func (r *reqState) clientDone() bool { return r.mClientDone }

//go:norace
func (r *reqState) setSentMirror(n int) { r.mSent = n }

//go:norace
func (r *reqState) setFaultDone() { r.mFaultDone = true }

//go:norace
func (r *reqState) faultDone() bool { return r.mFaultDone }

func (r *reqState) hlogFor(tag string) *HLog {
	if tag == "local" {
		return &r.hlog
	}
	return &r.blog
}
func (r *reqState) handlerSlot(tag string) *core.Slot {
	if tag == "local" {
		return r.hSlot
	}
	return r.bSlot
}
func (r *reqState) handlerSpec(tag string) *HandlerSpec { return &r.spec.Handler }

// log is the log of the handler that runs this request's script: the local
// one, or the backend's when the method is proxied.
func (r *reqState) log() *HLog {
	if len(r.servedBy) > 0 {
		// whoever actually ran the script (a method may have a local handler
		// and a backend at the same time)
		if r.servedBy[0] == "local" {
			return &r.hlog
		}
		return &r.blog
	}
	if r.spec.Backend != "" {
		return &r.blog
	}
	return &r.hlog
}

// client send gating (ping-pong): message k may be sent once the handler has
// sent k responses.
const (
	opSend = iota
	opClose
	opFault
	opConsume
)

// lastBound: the wire offset behind the client's last message (what follows is
// the WebSocket close frame).
//
//go:norace
func (r *reqState) lastBound() int {
	if len(r.bounds) == 0 {
		return 0
	}
	return r.bounds[len(r.bounds)-1]
}

//go:norace
func (r *reqState) Enabled(op int) bool {
	switch op {
	case opSend:
		if last := r.lastBound(); r.spec.WSDuplex && r.mSent >= last {
			// only the close frame is left
			log := &r.hlog
			return log.sentMirror() >= len(r.spec.Handler.Resps) || log.returnedMirror() || r.q.mAborted || r.q.mReturned
		}
		if r.spec.ServerFirst && r.mSent == 0 {
			return r.q.mOut > 0 || r.q.mAborted || r.q.mReturned
		}
		if !r.spec.PingPong {
			return true
		}
		// the next byte to send belongs to message k
		k := 0
		for k < len(r.bounds) && r.bounds[k] <= r.mSent {
			k++
		}
		log := &r.hlog
		if r.blog.mEntered {
			log = &r.blog
		}
		if n := len(r.spec.Handler.Resps); k > n {
			k = n // the handler has nothing more to answer with
		}
		if k == 0 || log.returnedMirror() || r.q.mAborted || r.q.mReturned {
			return true
		}
		// the handler has sent its k-th answer AND those bytes have been
		// flushed to the client (a local handler's writes go through the
		// simulated net/http buffer; a backend's through grpc-go)
		return log.sentMirror() >= k && (log == &r.blog || r.q.mFlushed >= log.sentMark(k))
	case opConsume:
		return r.q.mOut > r.q.mConsumed
	case opClose:
		return !r.spec.LateClose || r.q.mReturned || r.q.mAborted
	}
	return true
}

// ---- request encoding ----------------------------------------------------------

var jsonMarshal = protojson.MarshalOptions{}

func marshalMsg(codec string, m proto.Message) []byte {
	var b []byte
	var err error
	if codec == "json" {
		// a field that only the backends' build of an embedded message
		// declares travels as what it is there: a JSON member
		if f := m.ProtoReflect().Descriptor().Fields().ByName("payload"); f != nil && f.Message() != nil && m.ProtoReflect().Has(f) && len(m.ProtoReflect().Get(f).Message().GetUnknown()) > 0 {
			if nm := backendBuildOf(m); nm != nil {
				m = nm
			}
		}
		b, err = jsonMarshal.Marshal(m)
	} else {
		b, err = proto.MarshalOptions{}.Marshal(m)
	}
	if err != nil {
		panic(err)
	}
	return b
}

// clientMsg is the message the client encodes (no path-bound fields: those
// travel in the URL).
func (r *reqState) clientMsg(i int) proto.Message {
	if r.spec.Msgs[i].Over {
		return overMessage(r.spec.Msgs[i])
	}
	p := payloadFor(r.spec.payloadID(), i, 'C', r.spec.Msgs[i])
	if r.method.mkBody != nil && r.spec.Proto == "http" {
		return r.method.mkBody(p)
	}
	m := r.method.mkReq(p, "")
	if r.unknownField(i) {
		withUnknown(m, r.spec.Msgs[i].Seed)
	}
	if r.nestedNote(i) {
		withNestedNote(m, r.spec.Msgs[i].Seed)
	}
	return m
}

// nestedNote: a JSON client of a method that only a backend serves sets the
// field that the backend's build of the embedded Payload has and the gateway's
// does not (C10: the descriptors of a proxied method are the backend's, at
// every depth).
func (r *reqState) nestedNote(i int) bool {
	return r.spec.Msgs[i].Note || r.spec.Msgs[i].Unknown && r.spec.Codec == "json" && r.spec.Backend != "" && r.spec.Proto != "direct" && r.mr != nil && r.mr.sc.Prop == "C10"
}

func withNestedNote(m proto.Message, seed uint64) {
	f := m.ProtoReflect().Descriptor().Fields().ByName("payload")
	if f == nil || f.Message() == nil || f.Message().FullName() != "grpc.testing.Payload" || !m.ProtoReflect().Has(f) {
		return
	}
	raw := protowire.AppendTag(nil, 15, protowire.BytesType)
	raw = protowire.AppendString(raw, "note-"+strconv.FormatUint(seed%1000, 10))
	m.ProtoReflect().Mutable(f).Message().SetUnknown(raw)
}

// unknownField: only where the undeclared field can travel (binary protobuf
// of the whole request message).
func (r *reqState) unknownField(i int) bool {
	return r.spec.Msgs[i].Unknown && r.spec.Codec == "proto" && r.spec.Proto != "ws" && !(r.method.mkBody != nil && r.spec.Proto == "http")
}

// expectedReq is the message the handler must see for client message i.
func (r *reqState) expectedReq(i int) proto.Message {
	if r.spec.Msgs[i].Over {
		return overMessage(r.spec.Msgs[i])
	}
	p := payloadFor(r.spec.payloadID(), i, 'C', r.spec.Msgs[i])
	pv := ""
	if i == 0 && (r.spec.Proto == "http" || r.spec.Proto == "ws") {
		pv = r.boundPathVar()
	}
	m := r.method.mkReq(p, pv)
	if r.unknownField(i) {
		withUnknown(m, r.spec.Msgs[i].Seed)
	}
	if r.nestedNote(i) {
		withNestedNote(m, r.spec.Msgs[i].Seed)
	}
	if u, ok := m.(*testpb.UploadFileRequest); ok && r.spec.Proto == "http" && r.spec.Codec == "body" && u.File != nil {
		u.File.ContentType = r.spec.bodyCT() // the chunk messages carry the request's Content-Type
	}
	return m
}

func (r *reqState) boundPathVar() string {
	if r.method.httpPath == nil || r.spec.Route == "implicit" || r.method.Key == "chat" && r.spec.Proto == "http" {
		return ""
	}
	switch r.method.Key {
	case "chat":
		return "rooms/" + r.spec.PathVar
	case "getmsg":
		return "name/" + r.spec.PathVar
	}
	return r.spec.PathVar
}

func (r *reqState) encode() {
	sp := r.spec
	h := http.Header{}
	h.Set("X-Sim-Req", strconv.Itoa(sp.ID))
	for _, kv := range sp.MD {
		h.Add(kv[0], kv[1])
	}
	path := r.method.Full()
	meth := "POST"
	major, minor := 2, 0
	var w []byte
	switch {
	case sp.Raw != nil:
		major, minor = 1, 1
		meth, path = sp.Raw.Verb, sp.Raw.Path
		if sp.Raw.HasBody {
			h.Set("Content-Type", "application/json")
			w = []byte("{}")
			r.bounds = []int{len(w)}
		}
	}
	switch sp.Proto {
	case "raw-done":
	case "grpc", "grpcweb", "grpcwebtext":
		ct := map[string]string{"grpc": "application/grpc", "grpcweb": "application/grpc-web", "grpcwebtext": "application/grpc-web-text"}[sp.Proto]
		if sp.Codec == "json" {
			ct += "+json"
		} else if sp.ID%2 == 1 {
			ct += "+proto"
		}
		h.Set("Content-Type", ct)
		if sp.Proto == "grpc" {
			h.Set("Te", "trailers")
		} else if sp.ID%3 == 0 {
			major, minor = 1, 1
		}
		if sp.Compress {
			h.Set("Grpc-Encoding", "gzip")
		}
		if sp.Timeout != "" {
			h.Set("Grpc-Timeout", sp.Timeout)
		}
		for i := range sp.Msgs {
			w = wire.GRPCFrame(w, marshalMsg(sp.Codec, r.clientMsg(i)), sp.Compress && !sp.Msgs[i].Plain)
			r.bounds = append(r.bounds, len(w))
		}
		if sp.Poison {
			// not gzip at all, or (by the parity of the first message's seed) a
			// well-formed gzip stream that only fails late - after plaintext
			// has been produced: a wrong CRC, or the stream cut short
			junk := patternBytes(uint64(sp.ID)+77, 40)
			if len(sp.Msgs) > 0 {
				z := wire.Gzip(append(patternBytes(sp.Msgs[0].Seed, 300), marshalMsg(sp.Codec, r.clientMsg(0))...))
				switch sp.Msgs[0].Seed % 4 {
				case 1:
					z[len(z)-6] ^= 0x55 // CRC-32 of the trailer
					junk = z
				case 2:
					junk = z[:len(z)-9]
				case 3:
					junk = nil // flagged compressed, zero bytes long: not even a gzip header
				}
			}
			flag := byte(1)
			if len(sp.Msgs) > 0 && sp.Msgs[0].Seed%5 == 4 {
				// ... or not compressed at all, just not a message: the codec
				// refuses it (and may want to quote it in its error)
				flag, junk = 0, append([]byte{0xff, 0xff, 0xff, 0xff, 0x0f, 0x07}, patternBytes(sp.Msgs[0].Seed, 40)...)
			}
			w = append(w, flag, 0, 0, byte(len(junk)>>8), byte(len(junk)))
			w = append(w, junk...)
		}
		if sp.Proto == "grpcwebtext" {
			// one continuous base64 stream; bounds move to the first offset
			// at which the whole frame is decodable
			raw := w
			w = wire.Base64Encode(raw)
			r.rawBounds = append([]int(nil), r.bounds...)
			for i, b := range r.bounds {
				r.bounds[i] = (b + 2) / 3 * 4
			}
		}
	case "http":
		if sp.Raw != nil {
			break
		}
		if sp.ID%2 == 0 {
			major, minor = 1, 1
		}
		annotated := r.method.httpPath != nil && sp.Route != "implicit" && r.method.Key != "chat" // Chat's annotation is websocket-only
		if annotated {
			path = r.method.httpPath(r.boundPathVar())
			if r.method.httpVerb != "" {
				meth = r.method.httpVerb
			}
		}
		switch {
		case annotated && meth == "GET":
			// no body: everything travels in the path
		case !r.method.ClientS && sp.Codec != "body":
			// not client-streaming: the body is the one message, unframed
			h.Set("Content-Type", map[string]string{"json": "application/json", "proto": "application/protobuf"}[sp.Codec])
			if len(sp.Msgs) > 0 {
				w = append(w, marshalMsg(sp.Codec, r.clientMsg(0))...)
				r.bounds = append(r.bounds, len(w))
			}
		case sp.Codec == "json":
			h.Set("Content-Type", "application/json")
			for i := range sp.Msgs {
				if i > 0 {
					w = append(w, sp.Sep...)
				}
				w = append(w, marshalMsg("json", r.clientMsg(i))...)
				r.bounds = append(r.bounds, len(w))
			}
			if sp.SepEnd && len(sp.Msgs) > 0 {
				w = append(w, sp.Sep...)
			}
		case sp.Codec == "proto":
			h.Set("Content-Type", "application/protobuf")
			for i := range sp.Msgs {
				w = wire.AppendVarintDelimited(w, marshalMsg("proto", r.clientMsg(i)))
				r.bounds = append(r.bounds, len(w))
			}
		case sp.Codec == "body":
			h.Set("Content-Type", sp.bodyCT())
			for i := range sp.Msgs {
				w = append(w, payloadFor(sp.payloadID(), i, 'C', sp.Msgs[i])...)
			}
			r.bounds = nil // chunk boundaries are decided by the receive limit
		}
		if sp.Compress {
			h.Set("Content-Encoding", "gzip")
			w = wire.Gzip(w)
			r.bounds = nil // not meaningful at the compressed byte level
		}
	case "ws":
		meth = "GET"
		major, minor = 1, 1
		if r.method.httpPath != nil {
			path = r.method.httpPath(r.boundPathVar())
		} else {
			path = "/v1/ws/duplex" // service-config websocket rule on FullDuplexCall
		}
		h.Set("Upgrade", "websocket")
		h.Set("Connection", "Upgrade")
		h.Set("Sec-Websocket-Version", "13")
		h.Set("Sec-Websocket-Key", base64.StdEncoding.EncodeToString([]byte("sim-websocket-16")))
		for i := range sp.Msgs {
			mask := [4]byte{byte(sp.ID), byte(i), 0x5a, 0xa5}
			payload := marshalMsg("json", r.clientMsg(i))
			// how the client frames the message is derived from the message's
			// seed: text or binary opcode (browsers send Blob/ArrayBuffer as
			// binary), whole or in two fragments, with or without a ping first
			seed := sp.Msgs[i].Seed
			op := ws.OpText
			if seed%3 == 0 {
				op = ws.OpBinary
			}
			if seed%7 == 0 {
				w = append(w, wire.WSClientFrame(ws.OpPing, []byte("p"), true, mask)...)
			}
			if seed%5 == 0 && len(payload) >= 2 {
				k := 1 + int(seed/5)%(len(payload)-1)
				w = append(w, wire.WSClientFrame(op, payload[:k], false, mask)...)
				w = append(w, wire.WSClientFrame(ws.OpContinuation, payload[k:], true, mask)...)
			} else {
				w = append(w, wire.WSClientFrame(op, payload, true, mask)...)
			}
			r.bounds = append(r.bounds, len(w))
		}
		switch sp.WSClose {
		case "normal":
			w = append(w, wire.WSClientClose(ws.StatusNormalClosure, "", [4]byte{1, 2, 3, 4})...)
		case "away":
			w = append(w, wire.WSClientClose(ws.StatusGoingAway, "bye", [4]byte{4, 3, 2, 1})...)
		}
	}
	if sp.CTParam && sp.Proto == "http" && h.Get("Content-Type") != "" {
		h.Set("Content-Type", h.Get("Content-Type")+"; charset=utf-8")
	}
	if sp.AcceptGzip && sp.Proto == "http" {
		h.Set("Accept-Encoding", "gzip")
	}
	if sp.Accept != "" && sp.Proto == "http" {
		h.Set("Accept", map[string]string{"json": "application/json", "proto": "application/protobuf", "other": "text/html"}[sp.Accept])
	}
	if sp.Slash && sp.Proto == "http" {
		path += "/"
	}
	r.wire = w
	r.end = len(w)
	rawQuery := ""
	if i := strings.IndexByte(path, '?'); i >= 0 && sp.Raw != nil {
		path, rawQuery = path[:i], path[i+1:]
	}
	req := &http.Request{
		Method: meth, URL: &url.URL{Path: path, RawQuery: rawQuery}, Proto: fmt.Sprintf("HTTP/%d.%d", major, minor), ProtoMajor: major, ProtoMinor: minor,
		Header: h, Body: simBody{r.q}, ContentLength: -1, Host: "sim.test", RemoteAddr: "10.0.0.1:1234", RequestURI: path,
	}
	if sp.Proto == "ws" {
		req.ContentLength = 0
		req.Body = http.NoBody
	}
	if sp.Proto == "http" && r.method.Shape() == "unary" && len(w) == 0 {
		req.ContentLength = 0
	}
	if meth == "GET" && sp.Proto == "http" && sp.Raw == nil {
		req.ContentLength = 0
		req.Body = http.NoBody
	}
	if sp.Raw != nil && !sp.Raw.HasBody {
		req.ContentLength = 0
		req.Body = http.NoBody
	}
	r.httpReq = req.WithContext(r.q.ctx)
}

// ---- tasks -----------------------------------------------------------------------

func (r *reqState) clientTask() {
	defer r.setClientDone()
	pos := 0
	for pos < r.end {
		if !r.cSlot.Yield("c.send", r, opSend) {
			return
		}
		if r.q.isAborted() {
			return
		}
		remaining := r.end - pos
		// With ping-pong, do not run ahead of the message the handler answered.
		limit := r.end
		if r.spec.WSDuplex {
			// the close frame is a send of its own
			if last := r.lastBound(); pos < last && last < limit {
				limit = last
				remaining = limit - pos
			}
		}
		if r.spec.PingPong {
			k := 0
			for k < len(r.bounds) && r.bounds[k] <= pos {
				k++
			}
			if k < len(r.bounds) && r.bounds[k] < limit {
				limit = r.bounds[k]
			}
			remaining = limit - pos
		}
		n := remaining
		switch r.sim.Draw(4) {
		case 1: // up to the next message boundary
			for _, b := range r.bounds {
				if b > pos && b-pos < n {
					n = b - pos
					break
				}
			}
		case 2:
			n = 1 + r.sim.Draw(16)
		case 3:
			n = 1 + r.sim.Draw(remaining)
		}
		if n > remaining {
			n = remaining
		}
		r.q.clientSend(r.wire[pos : pos+n])
		pos += n
		r.sent = pos
		r.setSentMirror(pos)
		r.sim.Note("sent " + itoa(n))
	}
	if !r.cSlot.Yield("c.close", r, opClose) {
		return
	}
	if r.q.isAborted() {
		return
	}
	if r.spec.Fault.Kind == "readerr" {
		if r.spec.Fault.Err == "ueof" {
			r.q.clientBreakRead(io.ErrUnexpectedEOF)
		} else {
			r.q.clientBreakRead(errTransport)
		}
	} else {
		r.q.clientHalfClose()
	}
}

var errTransport = fmt.Errorf("sim: transport error on request stream")

type armed struct {
	sim  *core.Sim
	step int
	r    *reqState
}

//go:norace
func (a armed) Enabled(int) bool {
	if a.sim.IdleNow() {
		return true
	}
	if a.sim.StepNo() < a.step {
		return false
	}
	r := a.r
	switch r.spec.Fault.When {
	case "recv":
		return (r.hlog.mInRecv || r.blog.mInRecv) && r.q.mReadPark && r.q.mIn == 0 && !r.q.mInEOF
	case "send":
		return (r.hlog.mInSend || r.blog.mInSend) && r.q.mWritePark && r.q.mWindow > 0 && r.q.mOut-r.q.mConsumed >= r.q.mWindow
	case "early":
		return !r.hlog.mEntered
	}
	return true
}

func (r *reqState) faultTask(armStep int) {
	defer r.setFaultDone()
	if !r.fSlot.Yield("f."+r.spec.Fault.Kind, armed{r.sim, armStep, r}, opFault) {
		return
	}
	r.abortedAt = r.sim.StepNo()
	info := ""
	if r.hlog.inRecv() || r.blog.inRecv() {
		info += "handler-in-recv "
	}
	if r.hlog.inSend() || r.blog.inSend() {
		info += "handler-in-send "
	}
	if r.q.readParked() {
		info += "read-parked "
	}
	if r.q.writeParked() {
		info += "write-parked "
	}
	if !r.hlog.enteredMirror() {
		info += "before-handler "
	}
	if r.q.hasReturned() {
		info += "after-return "
	}
	r.abortInfo = info
	switch r.spec.Fault.Kind {
	case "abort":
		r.sim.Count(cAbort)
		step := r.sim.StepNo()
		switch r.sim.Draw(3) {
		case 0: // both at once
			r.q.clientAbort()
			r.ioBrokenAt, r.ctxCancelAt = step, step
		case 1: // the body and the writes fail first, the context is cancelled a few steps later
			r.q.clientBreakIO()
			r.ioBrokenAt = step
			r.sim.Note("abort: i/o broken, context still live")
			r.fSlot.Yield("f.abort.cancel", core.Always, opFault)
			r.q.cancel()
			r.ctxCancelAt = r.sim.StepNo()
		case 2: // the other way round
			r.q.cancel()
			r.ctxCancelAt = step
			r.sim.Note("abort: context cancelled, i/o still up")
			r.fSlot.Yield("f.abort.io", core.Always, opFault)
			r.q.clientBreakIO()
			r.ioBrokenAt = r.sim.StepNo()
		}
	case "wbreak":
		r.q.clientBreakWrites()
	case "bkill":
		r.sim.Count(cBackendKill)
		if b := r.mr.backendByTag(r.spec.Backend); b != nil {
			b.kill()
		}
	}
	r.sim.Note(r.spec.Fault.Kind + " " + info)
}

func (r *reqState) consumerTask() {
	for {
		if !r.kSlot.Yield("c.consume", r, opConsume) {
			return
		}
		avail := r.q.outLen()
		n := avail // all of it (clientConsume clamps)
		switch r.sim.Draw(3) {
		case 1:
			n = 1 + r.sim.Draw(r.spec.Window*2)
		case 2:
			n = 1 + r.sim.Draw(avail+1)
		}
		r.q.clientConsume(n)
	}
}

func (r *reqState) serverTask(mux http.Handler) {
	defer func() {
		if p := recover(); p != nil {
			r.panicVal = p
			r.panicStack = string(debug.Stack())
		}
		r.q.finish()
	}()
	if !r.sSlot.Yield("srv.start", probeStart{r}, 0) {
		return
	}
	r.sim.Bind(r.hSlot)
	r.srvStarted = true
	r.requestTime = r.sim.Now()
	r.invokeStep = r.sim.StepNo()
	defer func() { r.returnStep = r.sim.StepNo() }()
	mux.ServeHTTP(simRW{r.q}, r.httpReq)
}

// ---- the mux under test ------------------------------------------------------------

// extraCodec is a JSON codec under another name and content type.
type extraCodec struct {
	larking.CodecJSON
	name string
}

func (c extraCodec) Name() string { return c.name }

type nopStats struct{}

func (nopStats) TagRPC(ctx context.Context, _ *stats.RPCTagInfo) context.Context   { return ctx }
func (nopStats) HandleRPC(context.Context, stats.RPCStats)                         {}
func (nopStats) TagConn(ctx context.Context, _ *stats.ConnTagInfo) context.Context { return ctx }
func (nopStats) HandleConn(context.Context, stats.ConnStats)                       {}

func muxOptions(sc *MuxScenario, world *World) []larking.MuxOption {
	k := &sc.Knobs
	var rules []*annotations.HttpRule
	if !sc.NoDefaultRules {
		rules = append(rules,
			&annotations.HttpRule{Selector: "grpc.testing.TestService.FullDuplexCall", Pattern: &annotations.HttpRule_Custom{Custom: &annotations.CustomHttpPattern{Kind: "websocket", Path: "/v1/ws/duplex"}}, Body: "*"},
			&annotations.HttpRule{Selector: "grpc.testing.TestService.FullDuplexCall", Pattern: &annotations.HttpRule_Post{Post: "/v1/duplex/{response_status.message}"}, Body: "payload"},
			&annotations.HttpRule{Selector: "grpc.testing.TestService.UnaryCall", Pattern: &annotations.HttpRule_Post{Post: "/v1/unary/{response_size}"}, Body: "payload"},
		)
	}
	for i := range sc.Rules {
		rules = append(rules, sc.Rules[i].httpRule())
	}
	opts := []larking.MuxOption{
		larking.CompressorOption("gzip", &larking.CompressorGzip{}), // fresh pools per run
		larking.ServiceConfigOption(&serviceconfig.Service{Http: &annotations.Http{Rules: rules}}),
	}
	if k.MaxRecv > 0 {
		opts = append(opts, larking.MaxReceiveMessageSizeOption(k.MaxRecv))
	}
	for i := 0; i < k.ExtraCodecs; i++ {
		opts = append(opts, larking.CodecOption("application/x-sim-"+strconv.Itoa(i), extraCodec{larking.CodecJSON{}, "xsim" + strconv.Itoa(i)}))
	}
	if k.Stats {
		opts = append(opts, larking.StatsOption(nopStats{}))
	}
	// The interceptors are scheduling points: one before the handler is
	// called and one after it returned (e.g. between the moment a proxied
	// unary reply was decoded and the moment it is encoded for the client).
	yield := func(ctx context.Context, label string) {
		if world == nil {
			return
		}
		if rs := world.lookup(ctx); rs != nil {
			rs.hSlot.Yield(label, core.Always, 0)
		}
	}
	if k.UnaryInt {
		opts = append(opts, larking.UnaryServerInterceptorOption(func(ctx context.Context, req any, info *grpc.UnaryServerInfo, h grpc.UnaryHandler) (any, error) {
			yield(ctx, "int.before")
			resp, err := h(ctx, req)
			yield(ctx, "int.after")
			return resp, err
		}))
	}
	if k.StreamInt {
		opts = append(opts, larking.StreamServerInterceptorOption(func(srv any, ss grpc.ServerStream, info *grpc.StreamServerInfo, h grpc.StreamHandler) error {
			yield(ss.Context(), "int.before")
			err := h(srv, ss)
			yield(ss.Context(), "int.after")
			return err
		}))
	}
	return opts
}

var localServices = []string{tsvc, "larking.testpb.Files", "larking.testpb.ChatRoom"}

// ---- outcome -------------------------------------------------------------------------

type muxRun struct {
	sc     *MuxScenario
	sim    *core.Sim
	reqs   []*reqState
	stop   core.StopReason
	mux    *larking.Mux
	parked []string
	simTime     time.Duration
	bubblePanic string  // the bubble could not end: goroutines blocked for ever
	leftBehind  []string
	stuck  []*reqState // requests that had not returned when the driver stopped
	blocked []string   // where goroutines with larking frames were blocked at that moment
	setupErr error
	world  *World
	backends []*backend
	registrars []*registrar
	pre      *registrar
	monitor  *monitor
	ref      *refResult // sequential registry scenarios: the history's final state against a fresh registration of what is live
	teardown []func()   // run when the run is over (contexts handed to registrations)
	openRefl []string   // backends on which a reflection stream was still open when the run was over
}

// (called by concurrent registrar tasks, which only ever run one at a time:
// go:norace, like every other piece of state the tasks share with the harness,
// so that it neither reports a race nor orders the tasks)
//
//go:norace
func (mr *muxRun) addTeardown(f func()) { mr.teardown = append(mr.teardown, f) }

// deadBackend: the backend's transport was killed earlier in this run.
func (mr *muxRun) deadBackend(tag string) bool {
	b := mr.backendByTag(tag)
	if b == nil {
		return false
	}
	return b.isDead()
}

type allDone struct {
	reqs []*reqState
	mr   *muxRun
}

//go:norace
func (d allDone) Enabled(int) bool {
	for _, r := range d.reqs {
		if !r.q.hasReturned() || !r.clientDone() {
			return false
		}
	}
	if d.mr != nil {
		for _, g := range d.mr.registrars {
			if done, _ := g.progress(); done < len(g.ops) {
				return false
			}
		}
	}
	return true
}

// runMuxScenario executes one scenario under one tape inside a fresh bubble.
// prepare (optional) runs inside the bubble before the tasks are created.
func runMuxScenario(t *testing.T, sc *MuxScenario, tape *core.Tape) (mr *muxRun) {
	mr = &muxRun{sc: sc}
	larking.VerifDrainPools()
	larking.VerifWarmPools(sc.Knobs.WarmBytes, sc.Knobs.WarmBufs)
	if !raceEnabled {
		// the seeded global source is a locked source: in the race build its
		// mutex would add happens-before edges between requests
		rand.Seed(int64(tape.Draw(1 << 30)))
	}
	// A run that leaves a goroutine blocked for ever (e.g. a handler waiting
	// on a context nobody cancels) makes the bubble end with a deadlock panic
	// on this goroutine: keep it, so that the verdict computed so far is still
	// reported; the process is not reused afterwards.
	defer func() {
		if p := recover(); p != nil {
			mr.bubblePanic = fmt.Sprint(p)
			mr.leftBehind = blockedLarkingFrames()
		}
	}()
	synctest.Test(t, func(t *testing.T) {
		sim := core.NewSim(tape)
		sim.Policy = sc.Sched
		mr.sim = sim
		larking.VerifYield = sim.InsertedYield
		larking.VerifLockGate = sim.LockGate
		larking.VerifLocked = sim.Locked
		larking.VerifUnlocked = sim.Unlocked
		defer func() {
			larking.VerifYield, larking.VerifLockGate, larking.VerifLocked, larking.VerifUnlocked = nil, nil, nil, nil
		}()
		world := &World{sim: sim, reqs: map[int]*reqState{}, tag: "local", serverMD: newServerMD()}
		mr.world = world
		mux, err := larking.NewMux(muxOptions(sc, world)...)
		if err != nil {
			mr.setupErr = err
			return
		}
		mr.mux = mux
		local := localServices
		if sc.Local != nil {
			local = nil
			for _, s := range sc.Local {
				if s != "-" {
					local = append(local, s)
				}
			}
		}
		for _, svc := range local {
			if err := larking.VerifRegisterService(mux, world.serviceDesc(svc), world); err != nil {
				mr.setupErr = err
				return
			}
		}
		if len(sc.Backends) > 0 {
			if err := mr.startBackends(sim, world); err != nil {
				mr.setupErr = err
				return
			}
		}
		ops := 0
		for i := range sc.Reqs {
			sp := &sc.Reqs[i]
			w := sp.Weight
			if w <= 0 {
				w = 2
			}
			name := "r" + strconv.Itoa(sp.ID)
			rs := &reqState{spec: sp, method: methods[sp.Method], sim: sim, mr: mr, abortedAt: -1, ioBrokenAt: -1, ctxCancelAt: -1}
			if sp.Raw != nil {
				rs.method = rawMethodInfo(sp.Raw)
			}
			rs.q = newReqIO(sim, sp.ID, name, w)
			rs.q.zeroReads, rs.q.eofData, rs.q.window = sp.ZeroReads, sp.EOFData, sp.Window
			if sp.Fault.Err == "ueof" {
				rs.q.goneErr = io.ErrUnexpectedEOF
			}
			rs.q.sync()
			cw := w
			if sp.CWeight > 0 {
				cw = sp.CWeight
			}
			rs.cSlot = sim.NewSlot(name+".client", cw)
			rs.sSlot = sim.NewSlot(name+".srv", w)
			rs.hSlot = sim.NewSlot(name+".h", w)
			if hasOp(sp.Handler, "duplex") {
				rs.h2Slot = sim.NewSlot(name+".h2", w) // the handler's second goroutine
			}
			if sp.Backend != "" || len(sc.Backends) > 0 {
				rs.bSlot = sim.NewSlot(name+".bh", w)
			}
			rs.encode()
			world.reqs[sp.ID] = rs
			mr.reqs = append(mr.reqs, rs)
			ops += len(sp.Msgs)*6 + len(sp.Handler.Resps)*4 + len(sp.Handler.Steps)*2 + len(rs.wire)/4 + 20
			if sp.Window > 0 {
				for _, m := range sp.Handler.Resps {
					ops += m.Size/4 + 8
				}
			}
		}
		sim.StepCap = 20 * ops
		if sim.StepCap < 2000 {
			sim.StepCap = 2000
		}
		// Fault placement comes from the tape so that shrinking moves it.
		for _, rs := range mr.reqs {
			switch rs.spec.Fault.Kind {
			case "cut", "readerr":
				if len(rs.wire) > 0 {
					rs.end = tape.Draw(len(rs.wire) + 1)
					if rs.spec.Proto == "grpcwebtext" {
						rs.end = rs.end / 4 * 4 // whole base64 quanta only
					}
				}
				rs.cutMid = rs.end != 0 && rs.end != len(rs.wire)
				for i, b := range rs.bounds {
					if b == rs.end && (rs.rawBounds == nil || rs.rawBounds[i]%3 == 0) {
						// (text mode: only when the decoded prefix ends exactly on the frame boundary)
						rs.cutMid = false
					}
				}
				if sp := rs.spec; sp.Proto == "http" && sp.Codec == "json" && sp.Sep != "" && !sp.Compress {
					// ... or inside the whitespace that follows a complete object
					for i, b := range rs.bounds {
						if follows := i < len(rs.bounds)-1 || sp.SepEnd; follows && rs.end > b && rs.end <= b+len(sp.Sep) {
							rs.cutMid = false
						}
					}
				}
				if rs.bounds == nil {
					rs.cutMid = false
				}
			}
		}
		for _, rs := range mr.reqs {
			rs := rs
			if rs.spec.TwinOf != 0 {
				rs.setFaultDone()
				go rs.directTask(mr.backendByTag(rs.spec.Backend))
				continue
			}
			go rs.clientTask()
			go rs.serverTask(mux)
			if k := rs.spec.Fault.Kind; k == "abort" || k == "wbreak" || k == "bkill" {
				rs.fSlot = sim.NewSlot("r"+strconv.Itoa(rs.spec.ID)+".fault", 1)
				arm := tape.Draw(len(rs.spec.Msgs)*8 + len(rs.wire)/8 + 12)
				go rs.faultTask(arm)
			} else {
				rs.setFaultDone()
			}
			if rs.spec.Window > 0 {
				rs.kSlot = sim.NewSlot("r"+strconv.Itoa(rs.spec.ID)+".consumer", 1)
				go rs.consumerTask()
			}
		}
		if len(sc.Clock) > 0 {
			cp := &core.ClockPlan{Weight: 2}
			if sc.Note == "deadline" {
				cp.Gate = &mr.reqs[0].hlog // only once the handler waits on its context
				if mr.reqs[0].spec.Backend != "" {
					cp.Gate = &mr.reqs[0].blog // (the handler that runs the script sits behind the proxy)
				}
			}
			for _, ns := range sc.Clock {
				cp.Jumps = append(cp.Jumps, time.Duration(ns))
			}
			sim.Clock = cp
		}
		if len(sc.Pre) > 0 {
			pre := &registrar{mr: mr, idx: -1, ops: sc.Pre}
			for i, op := range sc.Pre {
				res := &regResult{Op: op, Reg: -1, Idx: i}
				pre.exec(res)
				res.Done = true
				pre.res = append(pre.res, res)
			}
			mr.pre = pre
		}
		for i, ops := range sc.Registrars {
			g := &registrar{mr: mr, idx: i, ops: ops, slot: sim.NewSlot("reg"+strconv.Itoa(i), 2)}
			for k, op := range ops {
				if op.Fail == "cancel-mid" {
					if g.kslots == nil {
						g.kslots = map[int]*core.Slot{}
					}
					g.kslots[k] = sim.NewSlot("reg"+strconv.Itoa(i)+".k"+strconv.Itoa(k), 1)
				}
			}
			mr.registrars = append(mr.registrars, g)
		}
		for _, g := range mr.registrars {
			go g.run()
		}
		if sc.Monitor > 0 {
			mr.monitor = &monitor{mr: mr, slot: sim.NewSlot("monitor", 1)}
			go mr.monitor.run(sc.Monitor)
		}
		mr.stop = sim.Run(allDone{mr.reqs, mr})
		if mr.stop != core.StopDone {
			mr.parked = sim.ParkedLabels()
			for _, rs := range mr.reqs {
				if !rs.q.hasReturned() {
					mr.stuck = append(mr.stuck, rs)
				}
			}
			mr.blocked = blockedLarkingFrames()
		}
		// Teardown: release leftover parked tasks (unfired fault tasks,
		// consumers; everything if the run wedged), then stop the backends.
		sim.Abort()
		for _, rs := range mr.reqs {
			rs.q.cancel()
		}
		if mr.stop == core.StopDone && len(mr.registrars) > 0 {
			// every registration has returned: nothing of it may still be
			// open on a backend connection
			synctest.Wait()
			for _, b := range mr.backends {
				if n := b.refl.activeStreams(); n > 0 {
					mr.openRefl = append(mr.openRefl, b.spec.Tag+":"+strconv.Itoa(n))
				}
			}
		}
		if sc.Sequential && mr.stop == core.StopDone && len(mr.registrars) == 1 {
			mr.ref = mr.referenceCheck(world)
		}
		for _, f := range mr.teardown {
			f()
		}
		mr.stopBackends()
		synctest.Wait()
		mr.simTime = sim.Now() // the fake clock only exists inside the bubble
	})
	return mr
}

// ---- shared invariants (§3.4) ------------------------------------------------------

func (mr *muxRun) contextKey(rs *reqState) string {
	sp := rs.spec
	k := sp.Proto + "+" + sp.Codec + "+" + rs.method.Shape() + "/" + sp.Method
	if sp.Compress {
		k += "+gzip"
	}
	if sp.Backend != "" {
		k += "+proxied"
	}
	if sp.ServerFirst {
		k += "+serverfirst"
	}
	if sp.Fault.Kind != "" {
		k += "+" + sp.Fault.Kind
	}
	return k
}

// larkingFrame extracts the first larking frame of a panic stack.
func larkingFrame(stack string) string {
	for _, ln := range strings.Split(stack, "\n") {
		if strings.HasPrefix(ln, "larking.io/larking.") {
			if i := strings.LastIndex(ln, "("); i > 0 {
				ln = ln[:i]
			}
			return strings.TrimPrefix(ln, "larking.io/larking.")
		}
	}
	return "?"
}

func (mr *muxRun) globalInvariants(prop string) *Violation {
	if mr.setupErr != nil {
		return violationf(prop, "setup-error", "setup", "mux setup failed: %v", mr.setupErr)
	}
	for _, rs := range mr.reqs {
		if rs.panicVal != nil {
			return violationf(prop, "panic", mr.contextKey(rs)+"@"+larkingFrame(rs.panicStack), "request %d: panic escaped ServeHTTP: %v\n%s", rs.spec.ID, rs.panicVal, trimStack(rs.panicStack))
		}
	}
	if mr.sim == nil {
		return violationf(prop, "harness-no-simulation", "harness", "the bubble did not start: %s", mr.bubblePanic)
	}
	if w := mr.sim.LockWaiters(); len(w) > 0 {
		return violationf(prop, "request-waited-for-registration", "Mux.mu", "serving tasks %v had to wait for the Mux's registration mutex while a registration or removal held it: requests are served beside registrations, not behind them", w)
	}
	if len(mr.openRefl) > 0 {
		return violationf(prop, "reflection-stream-left-open", "RegisterConn", "every RegisterConn call had returned, yet reflection streams were still open on %v (the caller's context lives on, as context.Background() would): each such call leaves one more stream on the connection the requests use%s", mr.openRefl, mr.regErrors())
	}
	// metadata the handlers own and share stays as they made it; a response
	// header set by a handler only ever carries that handler's own value
	worlds := []*World{mr.world}
	for _, b := range mr.backends {
		worlds = append(worlds, b.world)
	}
	for _, w := range worlds {
		if w != nil && !w.sharedMDIntact() {
			return violationf(prop, "handler-owned-metadata-modified", "SetHeader", "the metadata.MD that the handlers of %q pass to SetHeader (and keep) was changed: now %v", w.tag, w.serverMD)
		}
	}
	for _, rs := range mr.reqs {
		if rs.spec.TwinOf != 0 || rs.q == nil {
			continue
		}
		own := strconv.Itoa(rs.spec.ID)
		resp := rs.q.response()
		for _, hdr := range []http.Header{resp.Header, resp.Trailer} {
			for _, k := range []string{"X-Sim-Hdr", "X-Sim-Trl", "Grpc-Trailer-X-Sim-Trl"} {
				for _, v := range hdr[k] {
					if v != own {
						return violationf(prop, "foreign-metadata-in-response", mr.contextKey(rs), "request %d: response metadata %s carries %q - set by the handler of another request", rs.spec.ID, k, hdr[k])
					}
				}
			}
		}
	}
	if san := mr.sim.Sanity(); len(san) > 0 {
		return violationf(prop, "concurrent-io-on-one-stream", "sim-sanity", "%s; parked: %v", strings.Join(san, "; "), mr.parked)
	}
	if mr.stop != core.StopDone {
		var stuck []string
		var ctx string
		for _, rs := range mr.stuck {
			stuck = append(stuck, "r"+strconv.Itoa(rs.spec.ID))
			if ctx == "" {
				ctx = mr.contextKey(rs)
			}
		}
		rule := "wedge"
		if mr.stop == core.StopCap {
			rule = "livelock"
		}
		if len(stuck) == 0 && len(mr.parked) > 0 {
			// every request returned and every task still parked waits for the
			// Mux's registration mutex, which nobody holds any more in any
			// parked task: the lock was never released
			onlyLocks := true
			for _, p := range mr.parked {
				if !strings.HasSuffix(p, ":lock(blocked)") {
					onlyLocks = false
				}
			}
			if onlyLocks {
				return violationf(prop, rule, "registration-lock", "registration or removal calls never returned: every remaining task waits for the Mux's mutex, which no running task holds (stop=%s after %d steps); parked: %v", mr.stop, mr.sim.StepNo(), mr.parked)
			}
		}
		if len(stuck) == 0 {
			// requests returned but a client task never finished: harness logic
			return violationf(prop, "harness-client-stuck", "harness", "clients did not finish; parked: %v", mr.parked)
		}
		sort.Strings(mr.parked)
		return violationf(prop, rule, ctx, "requests %v never returned (stop=%s after %d steps, fake clock pushed %v); parked operations: %v; goroutines blocked inside larking: %v", stuck, mr.stop, mr.sim.StepNo(), mr.sim.Horizon, mr.parked, mr.blocked)
	}
	if mr.bubblePanic != "" {
		// every request returned, yet something stayed blocked after teardown
		if len(mr.leftBehind) > 0 {
			return violationf(prop, "goroutine-left-behind", strings.Join(mr.leftBehind, ","), "all requests returned, but after teardown goroutines were still blocked inside larking: %v (%s)", mr.leftBehind, mr.bubblePanic)
		}
		return violationf(prop, "harness-bubble-deadlock", "harness", "%s (no larking frame among the blocked goroutines)", mr.bubblePanic)
	}
	return nil
}

func trimStack(s string) string {
	lines := strings.Split(s, "\n")
	var out []string
	for i := 0; i < len(lines) && len(out) < 24; i++ {
		if strings.Contains(lines[i], "larking.io/larking") || strings.Contains(lines[i], "/repo/larking/") {
			out = append(out, lines[i])
		}
	}
	return strings.Join(out, "\n")
}

func (mr *muxRun) fill(res *RunResult, tape *core.Tape) {
	res.Scenario = mr.sc
	res.Tape = tape.Recorded()
	res.Dirty = mr.bubblePanic != ""
	if mr.sim != nil {
		res.Steps = mr.sim.StepNo()
		res.SimTime = mr.simTime
		res.Counters = mr.sim.Counters()
		res.SchedSig = mr.sim.ScheduleSignature()
		res.Digest = mr.sim.TraceDigest()
		res.Trace = mr.sim.RenderTrace(400)
	}
}

// blockedLarkingFrames lists, for every goroutine with a larking frame on its
// stack, the innermost larking frame (used in wedge reports).
func blockedLarkingFrames() []string {
	buf := make([]byte, 1<<20)
	buf = buf[:runtime.Stack(buf, true)]
	seen := map[string]int{}
	for _, g := range strings.Split(string(buf), "\n\n") {
		for _, ln := range strings.Split(g, "\n") {
			if strings.HasPrefix(ln, "larking.io/larking.") {
				if i := strings.LastIndex(ln, "("); i > 0 {
					ln = ln[:i]
				}
				seen[strings.TrimPrefix(ln, "larking.io/larking.")]++
				break
			}
		}
	}
	var out []string
	for k, n := range seen {
		out = append(out, k+"x"+strconv.Itoa(n))
	}
	sort.Strings(out)
	return out
}

// ---- direct twin: the same call script against the backend itself ---------------------

type directResult struct {
	Done   bool
	Msgs   []proto.Message
	Status *status.Status
	Err    error // could not even start
}

// directTask is a plain grpc-go client calling the backend over its own
// connection (the one larking uses), with yields between its operations.
func (r *reqState) directTask(b *backend) {
	defer r.setClientDone()
	defer r.q.finish()
	if !r.cSlot.Yield("d.start", core.Always, 0) {
		return
	}
	sp := r.spec
	mi := r.method
	md := metadata.Pairs("x-sim-req", strconv.Itoa(sp.ID))
	for _, kv := range sp.MD {
		k, v := strings.ToLower(kv[0]), kv[1]
		if strings.HasSuffix(k, "-bin") {
			v = string(binDecode(v))
		}
		md.Append(k, v)
	}
	ctx := metadata.NewOutgoingContext(r.q.ctx, md)
	res := &r.direct
	defer func() { res.Done = true }()
	if !mi.ClientS && !mi.ServerS {
		reply := mi.newResp()
		err := b.cc.Invoke(ctx, mi.Full(), r.clientMsg(0), reply)
		res.Status = status.Convert(err)
		if err == nil {
			res.Msgs = append(res.Msgs, reply)
		}
		return
	}
	cs, err := b.cc.NewStream(ctx, &grpc.StreamDesc{ClientStreams: mi.ClientS, ServerStreams: mi.ServerS}, mi.Full())
	if err != nil {
		res.Err = err
		res.Status = status.Convert(err)
		return
	}
	for i := range sp.Msgs {
		if !r.cSlot.Yield("d.send", core.Always, 0) {
			return
		}
		if err := cs.SendMsg(r.clientMsg(i)); err != nil {
			break // io.EOF: the call already ended; RecvMsg tells how
		}
	}
	if !r.cSlot.Yield("d.close", core.Always, 0) {
		return
	}
	cs.CloseSend()
	for {
		if !r.cSlot.Yield("d.recv", core.Always, 0) {
			return
		}
		m := mi.newResp()
		err := cs.RecvMsg(m)
		if err == io.EOF {
			res.Status = status.New(codes.OK, "")
			return
		}
		if err != nil {
			res.Status = status.Convert(err)
			return
		}
		res.Msgs = append(res.Msgs, m)
	}
}

// overMessage builds a FullDuplexCall request of at least m.Size encoded bytes
// out of many small repeated elements of slightly varying length: it
// compresses well, and wherever it is cut, the odds are fair that the cut falls
// between two elements, so that the remainder still parses - as a shorter
// message.
func overMessage(m MsgSpec) proto.Message {
	out := &grpc_testing.StreamingOutputCallRequest{}
	for i, n := 0, 0; n < m.Size; i++ {
		e := &grpc_testing.ResponseParameters{Size: int32(1 + (i*37+int(m.Seed%97))%300), IntervalUs: int32(1 + i%3)}
		out.ResponseParameters = append(out.ResponseParameters, e)
		n += 2 + proto.Size(e)
	}
	return out
}

// regErrors lists the registrations that returned an error (for reports).
func (mr *muxRun) regErrors() string {
	var out []string
	for _, g := range mr.registrars {
		for _, rr := range g.res {
			if rr.Err != nil {
				out = append(out, fmt.Sprintf("op %d %s %s: %v", rr.Idx, rr.Op.Kind, rr.Op.Target, rr.Err))
			}
		}
	}
	if len(out) == 0 {
		return ""
	}
	return "; registrations that returned an error: " + strings.Join(out, " | ")
}
