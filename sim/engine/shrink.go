package engine

import (
	"encoding/json"
	"fmt"
	"os"
	"testing"
	"time"
)

// safeRun executes one replayed run and converts an escaping panic of the
// engine itself (e.g. the end-of-bubble deadlock panic of a wedged run) into a
// nil result.
func safeRun(eng Engine, t *testing.T, rc *RunCtx) (res *RunResult) {
	defer func() {
		if r := recover(); r != nil {
			res = nil
		}
	}()
	return eng(t, rc)
}

// shrinkReplay minimises (scenario, tape) while the same (property, rule)
// still fails: structural scenario candidates first, then the tape (truncate,
// zero blocks, delete blocks, lower single values).
func shrinkReplay(t *testing.T, eng Engine, rf ReplayFile, budget time.Duration) ReplayFile {
	deadline := time.Now().Add(budget)
	tries := 0
	try := func(sc json.RawMessage, tape []uint32) *RunResult {
		if time.Now().After(deadline) {
			return nil
		}
		tries++
		rc := &RunCtx{Prop: rf.Property, Seed: rf.Seed, Run: rf.Run, Scenario: sc, Tape: tape, Replay: true}
		res := safeRun(eng, t, rc)
		if res == nil || res.Violation == nil || res.Violation.Rule != rf.Rule {
			return nil
		}
		return res
	}
	sc, tape := rf.Scenario, rf.Tape
	best := try(sc, tape)
	if best == nil {
		return rf // does not reproduce in-process; leave as is
	}
	// Canonical tape: without trailing zeros (a tape that runs out yields zeros).
	trim := func(t []uint32) []uint32 {
		for len(t) > 0 && t[len(t)-1] == 0 {
			t = t[:len(t)-1]
		}
		return t
	}
	same := func(a, b []uint32) bool {
		if len(a) != len(b) {
			return false
		}
		for i := range a {
			if a[i] != b[i] {
				return false
			}
		}
		return true
	}
	adopt := func(r *RunResult, s json.RawMessage) {
		best = r
		sc = s
		tape = trim(r.Tape)
	}
	adopt(best, sc)

	for round := 0; round < 6 && time.Now().Before(deadline); round++ {
		progress := false
		// 1. structural
		if sh := shrinkers[rf.Property]; sh != nil {
			for again := true; again && time.Now().Before(deadline); {
				again = false
				for _, cand := range sh(sc) {
					if r := try(cand, tape); r != nil {
						adopt(r, cand)
						again, progress = true, true
						break
					}
				}
			}
		}
		// 2. tape: truncate (binary search on the kept prefix)
		lo, hi := 0, len(tape)
		for lo < hi {
			mid := (lo + hi) / 2
			if r := try(sc, tape[:mid]); r != nil {
				hi = mid
				if len(r.Tape) < len(tape) {
					progress = true
				}
				adopt(r, sc)
				if hi > len(tape) {
					hi = len(tape)
				}
			} else {
				lo = mid + 1
			}
		}
		// 3. zero / delete blocks
		for size := len(tape) / 2; size >= 1; size /= 2 {
			for start := 0; start+size <= len(tape) && time.Now().Before(deadline); {
				allZero := true
				for _, v := range tape[start : start+size] {
					if v != 0 {
						allZero = false
					}
				}
				// delete
				cand := append(append([]uint32{}, tape[:start]...), tape[start+size:]...)
				if r := try(sc, cand); r != nil {
					before := tape
					adopt(r, sc)
					if !same(before, tape) && len(tape) <= len(before) {
						progress = true
						continue
					}
				}
				if !allZero {
					cand = append([]uint32{}, tape...)
					for i := start; i < start+size; i++ {
						cand[i] = 0
					}
					if r := try(sc, cand); r != nil {
						before := tape
						adopt(r, sc)
						if !same(before, tape) {
							progress = true
						}
					}
				}
				start += size
			}
		}
		// 4. lower single values
		for i := 0; i < len(tape) && time.Now().Before(deadline); i++ {
			for _, v := range []uint32{0, tape[i] / 2, tape[i] - 1} {
				if i >= len(tape) || v >= tape[i] {
					continue
				}
				cand := append([]uint32{}, tape...)
				cand[i] = v
				if r := try(sc, cand); r != nil {
					before := tape
					adopt(r, sc)
					if !same(before, tape) {
						progress = true
					}
					break
				}
			}
		}
		if !progress {
			break
		}
	}
	out := rf
	scJSON, _ := json.Marshal(best.Scenario)
	out.Scenario = scJSON
	out.Tape = best.Tape
	out.Detail = best.Violation.Detail
	out.Context = best.Violation.Context
	out.Digest = fmt.Sprintf("%016x", best.Digest)
	out.Trace = best.Trace
	out.Minimised = true
	fmt.Fprintf(os.Stderr, "shrink: %d candidates tried, tape %d -> %d\n", tries, rf.OrigTapeLen, len(out.Tape))
	return out
}
