package engine

import (
	"bufio"
	"context"
	"errors"
	"io"
	"net"
	"net/http"
	"strings"
	"sync"
	"time"

	"verif/sim/core"
)

// ReqIO is one simulated HTTP exchange: the request body the mux reads, the
// ResponseWriter it writes, the request context, and (for WebSocket) the
// hijacked connection. It stands in for net/http and models only these
// documented contract points:
//
//   - the header map is snapshotted at the first WriteHeader/Write/Flush;
//   - trailers are the keys announced in "Trailer" before the snapshot or
//     carrying http.TrailerPrefix, read when the handler returns;
//   - Body.Read fails after Body.Close, after the handler returned and after a
//     client abort; on abort the request context is cancelled and Write fails;
//   - full duplex (HTTP/2 semantics): reads and writes are independent.
//
// All parking goes through the race-invisible gates of package core. Bytes that
// really flow between client and server move under the mutex of their
// direction, so happens-before follows data flow and nothing else.
type ReqIO struct {
	sim  *core.Sim
	ID   int
	Name string

	bodySlot *core.Slot
	rwSlot   *core.Slot

	ctx    context.Context
	cancel context.CancelFunc

	goneErr error // what a body Read reports after a disconnect (nil: errClientGone); set before the run starts

	// The two directions of a request are independent, as they are on a real
	// connection: one mutex per direction, so that happens-before follows the
	// data that really flows (client -> body reads, response writes -> client)
	// and nothing else. A single mutex would order every response write before
	// the next body read of the same request and hide a race between a
	// stream's RecvMsg and SendMsg from the detector.
	inMu       sync.Mutex // guards the request direction
	in         []byte     // sent by the client, not yet read by the server
	inEOF      bool       // client half-closed
	inErr      error      // transport error to report once 'in' is drained
	zeroRun    int
	readsTotal int
	readN      int // bytes the server took from the body

	outMu       sync.Mutex // guards the response direction
	hdr         http.Header
	wroteHeader bool
	status      int
	snapshot    http.Header
	out         []byte
	flushed     int // response bytes that have left net/http's buffer (Flush, 4 KiB overflow, handler return)
	consumed    int // response bytes the client has taken (flow control)
	window      int // 0 = unlimited
	trailer     http.Header
	writes      int

	// flags seen from both directions: go:norace access only (flags/setFlag)
	aborted  bool // client went away
	wbroken  bool // writes fail (peer gone) without the context being cancelled yet
	closed   bool // Body.Close called
	returned bool // ServeHTTP returned
	hijacked bool

	// state at the moment of the abort (for the cancellation oracle)
	inPendingAt    int
	writeStalledAt bool

	// knobs
	zeroReads bool
	eofData   bool

	// mirrors: touched only by go:norace methods, read by the driver
	mIn       int
	mInEOF    bool
	mInErr    bool
	mAborted  bool
	mWBroken  bool
	mClosed   bool
	mReturned bool
	mOut      int
	mFlushed  int
	mConsumed int
	mWindow   int
	mReadPark bool // a goroutine is parked in Body.Read
	mWritePark bool
}

const (
	opRead = iota
	opWrite
)

var errClientGone = errors.New("sim: client disconnected")
var errBodyAfterHandler = errors.New("sim: invalid Read on closed Body (handler returned)")

func newReqIO(sim *core.Sim, id int, name string, weight int) *ReqIO {
	io := &ReqIO{sim: sim, ID: id, Name: name, hdr: http.Header{}}
	io.bodySlot = sim.NewSlot(name+".body", weight)
	io.rwSlot = sim.NewSlot(name+".rw", weight)
	io.rwSlot.QueueOK = "conn.write" // a hijacked net.Conn serialises concurrent Write calls
	io.ctx, io.cancel = context.WithCancel(context.Background())
	return io
}

// ---- mirrors ---------------------------------------------------------------

//go:norace
func (q *ReqIO) sync() {
	q.mIn, q.mInEOF, q.mInErr = len(q.in), q.inEOF, q.inErr != nil
	q.mAborted, q.mWBroken, q.mClosed, q.mReturned = q.aborted, q.wbroken, q.closed, q.returned
	q.mOut, q.mConsumed, q.mWindow = len(q.out), q.consumed, q.window
	q.mFlushed = q.flushed
}

type ioFlags struct{ aborted, wbroken, closed, returned, hijacked bool }

//go:norace
func (q *ReqIO) flags() ioFlags {
	return ioFlags{q.aborted, q.wbroken, q.closed, q.returned, q.hijacked}
}

//go:norace
func (q *ReqIO) setFlag(f *bool) { *f = true; q.sync() }

//go:norace
func (q *ReqIO) Enabled(op int) bool {
	switch op {
	case opRead:
		return q.mIn > 0 || q.mInEOF || q.mInErr || q.mAborted || q.mClosed || q.mReturned
	case opWrite:
		return q.mAborted || q.mWBroken || q.mWindow == 0 || q.mOut-q.mConsumed < q.mWindow
	}
	return true
}

//go:norace
func (q *ReqIO) setReadPark(v bool) { q.mReadPark = v }

//go:norace
func (q *ReqIO) setWritePark(v bool) { q.mWritePark = v }

//go:norace
func (q *ReqIO) readParked() bool { return q.mReadPark }

//go:norace
func (q *ReqIO) writeParked() bool { return q.mWritePark }

//go:norace
func (q *ReqIO) outLen() int { return q.mOut }

//go:norace
func (q *ReqIO) hasReturned() bool { return q.mReturned }

//go:norace
func (q *ReqIO) isAborted() bool { return q.mAborted }

//go:norace
func (q *ReqIO) inPending() int { return q.mIn }

// ---- server side: body -----------------------------------------------------

type simBody struct{ q *ReqIO }

func (b simBody) Read(p []byte) (int, error) { return b.q.read(p, "body.read") }
func (b simBody) Close() error {
	b.q.setFlag(&b.q.closed)
	return nil
}

func (q *ReqIO) read(p []byte, label string) (int, error) {
	q.setReadPark(true)
	ok := q.bodySlot.Yield(label, q, opRead)
	q.setReadPark(false)
	if !ok {
		return 0, errClientGone
	}
	q.inMu.Lock()
	defer q.inMu.Unlock()
	defer q.sync()
	q.readsTotal++
	switch f := q.flags(); {
	case f.aborted:
		if q.goneErr != nil {
			return 0, q.goneErr
		}
		return 0, errClientGone
	case f.closed:
		return 0, http.ErrBodyReadAfterClose
	case f.returned:
		return 0, errBodyAfterHandler
	}
	if len(p) == 0 {
		return 0, nil
	}
	if len(q.in) == 0 {
		if q.inErr != nil {
			q.sim.Count(cReadError)
			return 0, q.inErr
		}
		if q.inEOF {
			return 0, io.EOF
		}
		return 0, nil // cannot happen: not enabled
	}
	if q.zeroReads && q.zeroRun < 2 && q.sim.Chance(1, 12) {
		q.zeroRun++
		q.sim.Count(cZeroRead)
		return 0, nil
	}
	q.zeroRun = 0
	max := len(q.in)
	if len(p) < max {
		max = len(p)
	}
	k := max
	switch q.sim.Draw(4) {
	case 1:
		k = 1
		q.sim.Count(cOneByteRead)
	case 2:
		k = 1 + q.sim.Draw(max)
	case 3:
		k = 1 + q.sim.Draw(8)
		if k > max {
			k = max
		}
	}
	if k < max {
		q.sim.Count(cShortRead)
	}
	copy(p, q.in[:k])
	q.in = q.in[k:]
	q.readN += k
	q.sim.Note("read " + itoa(k))
	if len(q.in) == 0 && q.inEOF && q.inErr == nil && q.eofData && q.sim.Chance(1, 2) {
		q.sim.Count(cEOFWithData)
		q.sim.Note("eof-with-data")
		return k, io.EOF
	}
	return k, nil
}

// ---- server side: response writer ------------------------------------------

type simRW struct{ q *ReqIO }

var _ http.ResponseWriter = simRW{}
var _ http.Flusher = simRW{}
var _ http.Hijacker = simRW{}

func (w simRW) Header() http.Header { return w.q.hdr }

func (q *ReqIO) snapshotLocked(code int) {
	if q.wroteHeader {
		return
	}
	q.wroteHeader = true
	q.status = code
	q.snapshot = q.hdr.Clone()
}

func (w simRW) WriteHeader(code int) {
	q := w.q
	q.outMu.Lock()
	q.snapshotLocked(code)
	q.outMu.Unlock()
}

func (w simRW) Flush() {
	q := w.q
	q.outMu.Lock()
	q.snapshotLocked(200)
	q.flushed = len(q.out)
	q.sync()
	q.outMu.Unlock()
}

func (w simRW) Write(p []byte) (int, error) { return w.q.write(p, "rw.write") }

func (q *ReqIO) write(p []byte, label string) (int, error) {
	f := q.flags()
	q.outMu.Lock()
	stalled := q.window > 0 && len(q.out)-q.consumed >= q.window && !f.aborted && !f.wbroken
	q.outMu.Unlock()
	q.setWritePark(true)
	ok := q.rwSlot.Yield(label, q, opWrite)
	q.setWritePark(false)
	if !ok {
		return 0, errClientGone
	}
	f = q.flags()
	q.outMu.Lock()
	defer q.outMu.Unlock()
	defer q.sync()
	if f.aborted || f.wbroken {
		// net/http: a Write that was blocked on the peer is released with an
		// error, a large one fails when its buffer is flushed, but a small
		// Write after the peer went away just lands in the 4 KiB buffer and
		// reports success (Flush has no error to return). A hijacked
		// connection fails at once.
		if !f.hijacked && !stalled && len(p) < 4096 {
			q.sim.Note("write " + itoa(len(p)) + " swallowed by the buffer of a dead connection")
			return len(p), nil
		}
		q.sim.Count(cWriteError)
		return 0, errClientGone
	}
	if f.returned && !f.hijacked {
		return 0, http.ErrHandlerTimeout // write after the handler returned
	}
	q.snapshotLocked(200)
	q.writes++
	q.out = append(q.out, p...)
	if f.hijacked || len(q.out)-q.flushed >= 4096 {
		q.flushed = len(q.out) // a raw connection has no buffer; net/http's overflows at 4 KiB
	}
	q.sim.Note("write " + itoa(len(p)))
	return len(p), nil
}

// Hijack hands the connection over for WebSocket upgrades.
func (w simRW) Hijack() (net.Conn, *bufio.ReadWriter, error) {
	q := w.q
	q.setFlag(&q.hijacked)
	c := simConn{q}
	return c, bufio.NewReadWriter(bufio.NewReader(c), bufio.NewWriter(c)), nil
}

type simConn struct{ q *ReqIO }

type simAddr struct{}

func (simAddr) Network() string { return "sim" }
func (simAddr) String() string  { return "sim" }

func (c simConn) Read(p []byte) (int, error)  { return c.q.read(p, "conn.read") }
func (c simConn) Write(p []byte) (int, error) { return c.q.write(p, "conn.write") }
func (c simConn) Close() error {
	c.q.setFlag(&c.q.closed)
	return nil
}
func (simConn) LocalAddr() net.Addr                { return simAddr{} }
func (simConn) RemoteAddr() net.Addr               { return simAddr{} }
func (simConn) SetDeadline(t time.Time) error      { return nil }
func (simConn) SetReadDeadline(t time.Time) error  { return nil }
func (simConn) SetWriteDeadline(t time.Time) error { return nil }

// ---- handler returned ------------------------------------------------------

// finish is called by the request goroutine right after ServeHTTP returned.
func (q *ReqIO) finish() {
	q.setFlag(&q.returned)
	q.outMu.Lock()
	defer q.outMu.Unlock()
	q.flushed = len(q.out)
	if !q.flags().hijacked {
		// net/http: if nothing was written the header goes out now with all
		// keys; otherwise declared and prefixed trailers are collected.
		if !q.wroteHeader {
			q.snapshotLocked(200)
		} else {
			tr := http.Header{}
			for _, vs := range q.snapshot["Trailer"] {
				for _, k := range strings.Split(vs, ",") {
					k = http.CanonicalHeaderKey(strings.TrimSpace(k))
					if v, ok := q.hdr[k]; ok {
						tr[k] = append([]string(nil), v...)
					}
				}
			}
			for k, v := range q.hdr {
				if strings.HasPrefix(k, http.TrailerPrefix) {
					tr[strings.TrimPrefix(k, http.TrailerPrefix)] = append([]string(nil), v...)
				}
			}
			q.trailer = tr
		}
	}
	q.sync()
}

// ---- client side (always called by the owning client / fault task) ---------

func (q *ReqIO) clientSend(p []byte) {
	q.inMu.Lock()
	q.in = append(q.in, p...)
	q.sync()
	q.inMu.Unlock()
}

func (q *ReqIO) clientHalfClose() {
	q.inMu.Lock()
	q.inEOF = true
	q.sync()
	q.inMu.Unlock()
}

// clientBreakRead makes the request stream end with a transport error (not a
// disconnect: the context stays live).
func (q *ReqIO) clientBreakRead(err error) {
	q.inMu.Lock()
	q.inErr = err
	q.sync()
	q.inMu.Unlock()
}

// clientAbort is the client going away: net/http cancels the request context,
// pending and later reads fail, writes fail.
// clientAbort is the atomic form; clientBreakIO + cancel are its two halves
// (net/http does not promise their order: x/net/http2 fails the body before it
// cancels the context, HTTP/1 may notice the closed connection first).
func (q *ReqIO) clientAbort() {
	q.clientBreakIO()
	q.cancel()
}

// (the state "at the moment of the abort" is taken from the mirrors: locking
// both directions here would tie them together through the fault task)
//
//go:norace
func (q *ReqIO) clientBreakIO() {
	q.inPendingAt = q.mIn
	if q.mInEOF || q.mInErr {
		q.inPendingAt = -1 // the read would have returned anyway
	}
	q.writeStalledAt = q.mWindow > 0 && q.mOut-q.mConsumed >= q.mWindow
	q.aborted = true
	q.sync()
}

func (q *ReqIO) clientBreakWrites() { q.setFlag(&q.wbroken) }

func (q *ReqIO) clientConsume(n int) {
	q.outMu.Lock()
	q.consumed += n
	if q.consumed > len(q.out) {
		q.consumed = len(q.out)
	}
	q.sync()
	q.outMu.Unlock()
}

// Response is what the client observed, taken after the run.
type Response struct {
	Status   int
	Header   http.Header
	Body     []byte
	Trailer  http.Header
	Hijacked bool
	Returned bool
}

func (q *ReqIO) response() Response {
	q.outMu.Lock()
	defer q.outMu.Unlock()
	f := q.flags()
	return Response{Status: q.status, Header: q.snapshot, Body: append([]byte(nil), q.out...), Trailer: q.trailer, Hijacked: f.hijacked, Returned: f.returned}
}
