package engine

import (
	"encoding/base64"
	"fmt"
	"strings"
	"testing"

	spb "google.golang.org/genproto/googleapis/rpc/status"
	"google.golang.org/grpc/codes"
	grpc_testing "google.golang.org/grpc/interop/grpc_testing"
	"google.golang.org/protobuf/proto"
	"google.golang.org/protobuf/types/known/anypb"

	"verif/sim/core"
)

// C10 — proxying through RegisterConn is transparent (muxsim + a real grpc-go
// backend inside the bubble, reached over an in-memory connection).

func init() {
	engines["C10"] = runC10
	shrinkers["C10"] = shrinkMuxScenario
}

func genC10(r *core.Rand, run int) *MuxScenario {
	sc := &MuxScenario{Prop: "C10", Knobs: genKnobs(r)}
	sc.Knobs.MaxRecv = r.Pick(4096, 65536)
	sc.Knobs.UnaryInt = r.Chance(1, 2) // the interceptors are scheduling points around the forwarders
	sc.Knobs.StreamInt = r.Chance(1, 2)
	sc.Local = []string{"larking.testpb.ChatRoom"} // TestService is only served by the backend
	sc.Backends = []BackendSpec{{Tag: "b1", Services: []string{tsvc}, Verbose: run%2 == 1, DepsFirst: run%4 == 3}}
	k := 1
	if r.Chance(1, 3) {
		k = 2 + r.Intn(2)
	}
	for i := 0; i < k; i++ {
		sc.Reqs = append(sc.Reqs, genProxiedRequest(r, i+1, sc.Knobs.MaxRecv))
	}
	// model validation and the literal reading of the property: in a quarter
	// of the runs the first fault-free gRPC-fronted call gets a twin that runs
	// the same script directly against the backend
	if r.Chance(1, 4) {
		for i := range sc.Reqs {
			sp := sc.Reqs[i]
			if sp.Fault.Kind == "" && (sp.Proto == "grpc" || sp.Proto == "grpcweb") && !sp.LateClose {
				twin := sp
				twin.ID, twin.TwinOf, twin.Proto, twin.Window = 100+sp.ID, sp.ID, "direct", 0
				if sp.Codec != "proto" {
					// JSON cannot carry an undeclared field: the twin must not send one either
					twin.Msgs = append([]MsgSpec(nil), sp.Msgs...)
					for i := range twin.Msgs {
						// (... but what the JSON client sends of the backend's
						// newer build of Payload, a direct client sends too)
						twin.Msgs[i].Note = twin.Msgs[i].Unknown
						twin.Msgs[i].Unknown = false
					}
				}
				twin.Codec = "proto"
				sc.Reqs = append(sc.Reqs, twin)
				break
			}
		}
	}
	fitLimits(sc)
	return sc
}

func genProxiedRequest(r *core.Rand, id, limit int) ReqSpec {
	combos := []struct{ proto, codec, method string }{
		{"grpc", "proto", "unary"}, {"grpc", "proto", "client"}, {"grpc", "proto", "server"}, {"grpc", "proto", "bidi"}, {"grpc", "proto", "bidi"},
		{"grpc", "json", "unary"}, {"grpc", "json", "bidi"}, {"grpcweb", "proto", "bidi"}, {"grpcwebtext", "proto", "bidi"}, {"grpcwebtext", "proto", "client"},
		{"http", "json", "unary"}, {"http", "json", "client"}, {"http", "json", "server"}, {"http", "json", "bidi"},
		{"http", "proto", "unary"}, {"http", "proto", "bidi"},
	}
	c := combos[r.Intn(len(combos))]
	sp := ReqSpec{ID: id, Proto: c.proto, Codec: c.codec, Method: c.method, Weight: 1 + r.Intn(3), Backend: "b1"}
	mi := methods[sp.Method]
	n := 1
	if mi.ClientS {
		n = r.Intn(7)
	}
	for i := 0; i < n; i++ {
		sp.Msgs = append(sp.Msgs, MsgSpec{Size: r.Pick(0, 1, 8, 64, 100, 1000), Seed: r.U64() >> 8, Unknown: r.Chance(1, 4)})
	}
	h := HandlerSpec{FailCode: int(codes.Aborted)}
	nresp := 1
	if mi.ServerS {
		nresp = r.Intn(7)
	}
	for i := 0; i < nresp; i++ {
		h.Resps = append(h.Resps, MsgSpec{Size: r.Pick(0, 1, 8, 64, 100, 1000), Seed: r.U64() >> 8})
	}
	// backend failure points
	failing := r.Chance(2, 5)
	if failing {
		h.Code = 1 + r.Intn(16)
		h.Msg = r.PickS("backend says no", "x", "denied: quota", "a/b c", "100% sure", "a%b", "caf\u00e9 closed", "tab\there", "%", "ends in %", "100%25", "/help%2Fquota", "%41%42c", "%%", "%e2%82", "%zz%4")
		h.Details = r.Chance(1, 2)
		h.DetailForeign = h.Details && c.proto != "http" && h.Code%2 == 0
	}
	switch mi.Shape() {
	case "unary":
		if r.Chance(1, 3) {
			h.Steps = append(h.Steps, HStep{Op: "header"})
		}
	case "client":
		switch {
		case failing && r.Chance(1, 2): // fails while the client is still sending
			for i := r.Intn(3); i > 0; i-- {
				h.Steps = append(h.Steps, HStep{Op: "recv"})
			}
		default: // after the half-close
			h.Steps = []HStep{{Op: "recvall"}, {Op: "sendall"}}
		}
	case "server":
		h.Steps = []HStep{{Op: "recv"}}
		k := len(h.Resps)
		if failing {
			k = r.Intn(len(h.Resps) + 1) // before the first response / after k responses
		}
		for i := 0; i < k; i++ {
			h.Steps = append(h.Steps, HStep{Op: "send"})
		}
	default:
		switch r.Intn(6) {
		case 0:
			h.Steps = []HStep{{Op: "echo"}, {Op: "sendall"}}
		case 1:
			h.Steps = []HStep{{Op: "recvall"}, {Op: "sendall"}}
		case 2:
			h.Steps = []HStep{{Op: "sendall"}, {Op: "recvall"}}
		case 3: // returns while the client is still sending
			for i := r.Intn(3); i > 0; i-- {
				h.Steps = append(h.Steps, HStep{Op: "recv"})
			}
			h.Steps = append(h.Steps, HStep{Op: "sendall"})
			// ... possibly to a client that only half-closes once it has seen
			// the call end (a direct call to the backend ends right away)
			sp.LateClose = r.Chance(1, 2) && len(sp.Msgs) >= 2
		case 4: // after k responses
			h.Steps = []HStep{{Op: "recv"}}
			for i := r.Intn(len(h.Resps) + 1); i > 0; i-- {
				h.Steps = append(h.Steps, HStep{Op: "send"})
			}
		case 5:
			for i := 0; i < 4; i++ {
				h.Steps = append(h.Steps, HStep{Op: r.PickS("recv", "send")})
			}
			h.Steps = append(h.Steps, HStep{Op: "recvall"}, HStep{Op: "sendall"})
		}
	}
	if r.Chance(1, 4) {
		h.Steps = append([]HStep{{Op: "header"}}, h.Steps...)
	}
	if r.Chance(1, 4) {
		h.Steps = append(h.Steps, HStep{Op: "trailer"})
	}
	sp.Handler = h
	// custom request metadata, ASCII and binary
	if r.Chance(2, 3) {
		sp.MD = append(sp.MD, [2]string{"X-Custom-Key", r.PickS("v1", "hello world", "a,b;c=d")})
	}
	if r.Chance(1, 2) {
		raw := patternBytes(r.U64(), 1+r.Intn(12))
		sp.MD = append(sp.MD, [2]string{"X-Blob-Bin", binValue(r, raw)})
	}
	if r.Chance(1, 4) {
		sp.MD = append(sp.MD, [2]string{"X-Multi", "one"}, [2]string{"X-Multi", "two"})
	}
	sp.ZeroReads = r.Chance(1, 6)
	sp.EOFData = r.Chance(1, 4)
	switch f := r.Intn(20); {
	case f < 2:
		sp.Fault.Kind = "abort"
	case f < 3:
		sp.Fault.Kind = "bkill"
	case f < 5 && mi.ClientS && !sp.LateClose:
		// the client's stream breaks inside a message (clean EOF or transport
		// error, context still live): the backend must not take it for a
		// complete stream
		sp.Fault.Kind = r.PickS("cut", "readerr")
	}
	if (sp.Proto == "http" || strings.HasPrefix(sp.Proto, "grpcweb")) && r.Chance(1, 2) {
		sp.Fault.Err = "ueof"
	}
	addZeroMessages(r, &sp)
	// gzip on the front leg (the proxy's request pump then decompresses in
	// RecvMsg while the reply loop compresses in SendMsg)
	if strings.HasPrefix(sp.Proto, "grpc") && r.Chance(1, 3) {
		sp.Compress = true
		for i := range sp.Msgs {
			sp.Msgs[i].Plain = r.Chance(1, 4) || sp.Msgs[i].Zero
		}
	}
	// ... or a gzip request body on the plain-HTTP front (the pump then reads
	// through the pooled decompressor, also after the handler has returned)
	// (not for a client that keeps its body open until it has seen the call
	// end: it would hold back the end of a gzip stream it has already finished,
	// and Go's gzip reader keeps the last block back until it has looked for a
	// following member)
	if sp.Proto == "http" && !sp.LateClose && r.Chance(1, 4) {
		sp.Compress = true
	}
	// the server speaks first: a bidi backend that answers before it reads, and
	// a client that sends its first message only once the first answer has
	// reached it (a direct call to the backend goes like that)
	if sp.Method == "bidi" && strings.HasPrefix(sp.Proto, "grpc") && sp.Fault.Kind == "" && !sp.LateClose && h.Code == 0 && len(sp.Msgs) >= 1 && len(h.Resps) >= 1 && r.Chance(1, 8) {
		sp.ServerFirst = true
		sp.Handler.Steps = []HStep{{Op: "sendall"}, {Op: "recvall"}}
	}
	if sp.Proto == "http" && r.Chance(1, 4) {
		sp.AcceptGzip = true
	}
	// a second and third binary key
	if r.Chance(1, 3) {
		sp.MD = append(sp.MD, [2]string{"X-Second-Bin", binValue(r, patternBytes(r.U64(), 1+r.Intn(20)))})
		if r.Chance(1, 2) {
			sp.MD = append(sp.MD, [2]string{"X-Third-Bin", base64.RawStdEncoding.EncodeToString(patternBytes(r.U64(), 1+r.Intn(5)))})
		}
	}
	return sp
}

func runC10(t *testing.T, rc *RunCtx) *RunResult {
	sc := loadMuxScenario(rc, genC10)
	tape := rc.NewTape()
	mr := runMuxScenario(t, sc, tape)
	res := &RunResult{}
	mr.fill(res, tape)
	var kinds []string
	for _, rs := range mr.reqs {
		kinds = append(kinds, rs.spec.Proto+"/"+rs.spec.Codec+"/"+rs.spec.Method+"/"+rs.spec.Fault.Kind+fmt.Sprintf("/c%d", rs.spec.Handler.Code))
	}
	res.Shape = strings.Join(kinds, ",")
	res.Nontrivial = true
	if v := mr.globalInvariants("C10"); v != nil {
		res.Violation = v
		return res
	}
	killed := false
	for _, rs := range mr.reqs {
		if rs.spec.Fault.Kind == "bkill" {
			killed = true
		}
	}
	for _, rs := range mr.reqs {
		if rs.spec.TwinOf != 0 {
			if !killed {
				if v := compareWithDirect(mr, rs, &res.Counters); v != nil {
					res.Violation = v
					return res
				}
			}
			continue
		}
		if v := oracleProxy(mr, rs, &res.Counters); v != nil {
			res.Violation = v
			return res
		}
	}
	return res
}

// compareWithDirect: what the client saw through larking against what a plain
// grpc-go client saw calling the backend itself with the same script.
func compareWithDirect(mr *muxRun, twin *reqState, cnt *[core.NumCounters]int) *Violation {
	var orig *reqState
	for _, rs := range mr.reqs {
		if rs.spec.ID == twin.spec.TwinOf {
			orig = rs
		}
	}
	if orig == nil || !twin.direct.Done || twin.direct.Status == nil {
		return nil
	}
	ctx := mr.contextKey(orig)
	fail := func(rule, format string, args ...any) *Violation {
		return violationf("C10", rule, ctx, "request %d vs its direct twin: "+format, append([]any{orig.spec.ID}, args...)...)
	}
	cnt[cDirectCompare]++
	cv := orig.decodeResponse(orig.q.response())
	d := &twin.direct
	if len(cv.Msgs) != len(d.Msgs) {
		return fail("differs-from-direct", "the client got %d response messages through larking, %d when calling the backend directly (status through larking %d %q, direct %v)", len(cv.Msgs), len(d.Msgs), cv.Status.Code, cv.Status.Message, d.Status)
	}
	for i := range d.Msgs {
		if !proto.Equal(cv.Msgs[i], d.Msgs[i]) {
			return fail("differs-from-direct", "response message #%d differs: through larking %s, direct %s", i, msgPreview(cv.Msgs[i]), msgPreview(d.Msgs[i]))
		}
	}
	if cv.Status.Code != int(d.Status.Code()) || cv.Status.Message != d.Status.Message() {
		return fail("differs-from-direct", "final status through larking %d %q, direct %d %q", cv.Status.Code, cv.Status.Message, int(d.Status.Code()), d.Status.Message())
	}
	if dp := d.Status.Proto(); dp != nil && len(dp.Details) > 0 {
		var st spb.Status
		if err := proto.Unmarshal(cv.Status.Details, &st); err != nil || !proto.Equal(&st, dp) {
			return fail("differs-from-direct", "status details through larking %v (err %v), direct %v", &st, err, dp)
		}
	}
	// the backend's view, where the script makes it schedule-independent
	ol, tl := &orig.blog, &twin.blog
	if ol.RecvEOF && tl.RecvEOF && ol.RecvErr == nil && tl.RecvErr == nil {
		if len(ol.Recv) != len(tl.Recv) {
			return fail("differs-from-direct", "the backend received %d messages through larking and %d directly, both up to a clean end of stream", len(ol.Recv), len(tl.Recv))
		}
		for i := range ol.Recv {
			if !proto.Equal(ol.Recv[i], tl.Recv[i]) {
				return fail("differs-from-direct", "backend message #%d differs: through larking %s, direct %s", i, msgPreview(ol.Recv[i]), msgPreview(tl.Recv[i]))
			}
		}
	}
	return nil
}

// oracleProxy: the transcript through larking must be the transcript the call
// script prescribes for a direct call to the backend (gRPC semantics).
func oracleProxy(mr *muxRun, rs *reqState, cnt *[core.NumCounters]int) *Violation {
	sp := rs.spec
	l := rs.log()
	ctx := mr.contextKey(rs)
	fail := func(rule, format string, args ...any) *Violation {
		return violationf("C10", rule, ctx, "request %d: "+format, append([]any{sp.ID}, args...)...)
	}
	killed := false
	for _, o := range mr.reqs {
		if o.spec.Fault.Kind == "bkill" && o.spec.Backend == sp.Backend {
			killed = true // the connection is shared: every call to that backend is affected
		}
	}
	if killed {
		// deliberately weak: liveness and no panic were checked globally; the
		// client must not be told OK unless the backend really finished
		if l.Returned {
			return nil
		}
		cv := rs.decodeResponse(rs.q.response())
		if (sp.Proto == "grpc" || sp.Proto == "grpcweb") && cv.Status.Present && cv.Status.Code == 0 && l.Entered {
			return fail("ok-after-backend-kill", "the backend connection was killed before the backend handler returned, yet the client saw status OK")
		}
		return nil
	}
	if v := oracleStream("C10", mr, rs, cnt); v != nil {
		return v
	}
	if !l.Entered {
		return nil
	}
	// request metadata reached the backend
	for _, kv := range sp.MD {
		key := strings.ToLower(kv[0])
		want := kv[1]
		if strings.HasSuffix(key, "-bin") {
			want = string(binDecode(kv[1]))
		}
		found := false
		for _, v := range l.MD.Get(key) {
			if v == want {
				found = true
			}
		}
		if !found {
			return fail("metadata-lost", "request metadata %q=%q did not reach the backend (it saw %q)", key, want, l.MD.Get(key))
		}
	}
	if sp.Fault.Kind != "" {
		return nil
	}
	// half-close propagation
	if rs.method.ClientS && hasOp(sp.Handler, "recvall") && l.Returned {
		if l.RecvEOF {
			cnt[cHalfClosePropagated]++
		}
	}
	if l.Returned && l.RetCode != codes.OK {
		switch {
		case l.Sent == 0:
			cnt[cBackendFailBeforeFirst]++
		case l.RecvEOF:
			cnt[cBackendFailAfterHalfClose]++
		default:
			cnt[cBackendFailMid]++
		}
	}
	// status details
	if l.Returned && sp.Handler.Details && l.RetCode != codes.OK && sp.Proto != "http" {
		cv := rs.decodeResponse(rs.q.response())
		var st spb.Status
		if err := proto.Unmarshal(cv.Status.Details, &st); err != nil || len(cv.Status.Details) == 0 {
			return fail("status-details-lost", "the backend's status carried details; the client got grpc-status-details-bin of %d bytes (err %v)", len(cv.Status.Details), err)
		}
		d1, _ := anypb.New(&grpc_testing.Payload{Body: []byte("detail-" + l.RetMsg)})
		d2, _ := anypb.New(&grpc_testing.EchoStatus{Code: int32(l.RetCode), Message: "second"})
		want := &spb.Status{Code: int32(l.RetCode), Message: l.RetMsg, Details: []*anypb.Any{d1, d2}}
		if sp.Handler.DetailForeign {
			want.Details = append(want.Details, foreignDetail())
		}
		if !proto.Equal(&st, want) {
			return fail("status-details-mismatch", "client saw %v, backend returned %v", &st, want)
		}
	}
	return nil
}

// binValue spells a binary metadata value the way a client may put it on the
// wire: base64 without padding (what grpc-go sends) or with it (the gRPC wire
// specification obliges receivers to accept both).
func binValue(r *core.Rand, raw []byte) string {
	if r.Chance(1, 3) {
		return base64.StdEncoding.EncodeToString(raw)
	}
	return base64.RawStdEncoding.EncodeToString(raw)
}

func binDecode(v string) []byte {
	b, _ := base64.RawStdEncoding.DecodeString(strings.TrimRight(v, "="))
	return b
}
