package engine

import (
	"bytes"
	"fmt"
	"strconv"
	"strings"
	"testing"
	"unicode/utf8"

	"google.golang.org/grpc/codes"

	"verif/sim/core"
)

// C13 — concurrent requests are isolated; serving paths race-free. K concurrent
// calls on a mix of protocols, codecs and compression with self-describing
// payloads sized around the pool buffer sizes; the same runs feed the race
// detector in the race build (HB-faithful gates, see core/sim.go).

func init() {
	engines["C13"] = runC13
	shrinkers["C13"] = shrinkMuxScenario
}

var c13Combos = []struct{ proto, codec, method string }{
	{"grpc", "proto", "unary"}, {"grpc", "proto", "client"}, {"grpc", "proto", "server"}, {"grpc", "proto", "bidi"},
	{"grpc", "json", "unary"}, {"grpc", "json", "bidi"}, {"grpc", "proto", "files"},
	{"grpcweb", "proto", "unary"}, {"grpcweb", "proto", "server"}, {"grpcweb", "proto", "bidi"}, {"grpcwebtext", "proto", "unary"}, {"grpcwebtext", "proto", "bidi"},
	{"http", "json", "unary"}, {"http", "json", "client"}, {"http", "json", "server"}, {"http", "json", "bidi"},
	{"http", "proto", "unary"}, {"http", "proto", "client"}, {"http", "proto", "server"}, {"http", "proto", "bidi"},
	{"http", "body", "files"}, {"http", "body", "files"}, {"http", "body", "upload"},
	{"http", "json", "bidisel"}, {"http", "proto", "bidisel"}, {"http", "json", "unarysel"}, {"http", "proto", "unarysel"},
	{"ws", "json", "chat"}, {"ws", "json", "bidi"},
}

func genMixedRequest(r *core.Rand, id int, limit int, allowFaults bool) ReqSpec {
	c := c13Combos[r.Intn(len(c13Combos))]
	sp := ReqSpec{ID: id, Proto: c.proto, Codec: c.codec, Method: c.method, Weight: 1 + r.Intn(4)}
	mi := methods[sp.Method]
	switch sp.Method {
	case "chat":
		sp.PathVar = r.PickS("lobby", "a", "room-1")
	case "files", "upload":
		sp.PathVar = r.PickS("cat.jpg", "a.bin")
	case "bidisel":
		sp.PathVar = r.PickS("a", "msg-1")
	case "unarysel":
		sp.PathVar = strconv.Itoa(r.Intn(100000))
	}
	if sp.Proto == "ws" {
		sp.WSClose = r.PickS("normal", "normal", "none")
	}
	sp.Compress = sp.Proto != "ws" && r.Chance(1, 4)
	effLimit := limit
	if sp.Compress && sp.Proto != "http" {
		effLimit -= 64
	}
	n := 1 + r.Intn(5)
	if !mi.ClientS {
		n = 1
	}
	maxPayload := payloadSizeFor(mi, sp.Codec, effLimit)
	sizes := []int{0, 1, 8, 59, 60, 63, 64, 65, 100, 127, 128, 1000, 1024, 4000}
	for i := 0; i < n; i++ {
		size := sizes[r.Intn(len(sizes))]
		if r.Chance(1, 8) {
			size = maxPayload // at the limit
		}
		if r.Chance(1, 16) {
			size = 65536
		}
		if size > maxPayload {
			size = maxPayload
		}
		if sp.Proto == "ws" && size > 300 {
			size = 300
		}
		sp.Msgs = append(sp.Msgs, MsgSpec{Size: size, Seed: r.U64() >> 8, Plain: sp.Compress && sp.Proto != "http" && r.Chance(1, 4), Unknown: r.Chance(1, 6)})
	}
	if sp.Method == "unarysel" && sp.Msgs[0].Size == 0 {
		sp.Msgs[0].Size = 1 // an empty protobuf body is "no body" for the mux (C03's subject)
	}
	if sp.Codec == "body" {
		size := r.Pick(0, 1, 63, 64, 65, 1000, limit-1, limit, limit+1, 2*limit+1)
		if size < 0 {
			size = 0
		}
		if sp.Method == "upload" {
			// a unary upload: one bounded read of the whole body (an empty body
			// is "no body", C03's subject; one over the limit is C08's)
			if size > limit-1 {
				size = limit - 1
			}
			if size < 1 {
				size = 1
			}
		}
		sp.Msgs = []MsgSpec{{Size: size, Seed: r.U64() >> 8}}
	}
	nresp := 1 + r.Intn(4)
	if !mi.ServerS {
		nresp = 1
	}
	h := HandlerSpec{FailCode: int(codes.Aborted)}
	for i := 0; i < nresp; i++ {
		size := sizes[r.Intn(len(sizes))]
		if max := limit - 80; size > max {
			size = max
		}
		if sp.Codec == "json" && size > (limit-80)/2 {
			size = (limit - 80) / 2
		}
		if size < 0 {
			size = 0
		}
		h.Resps = append(h.Resps, MsgSpec{Size: size, Seed: r.U64() >> 8})
	}
	switch mi.Shape() {
	case "unary":
		if r.Chance(1, 4) {
			h.Steps = append(h.Steps, HStep{Op: "header"})
		}
	case "client":
		h.Steps = []HStep{{Op: "recvall"}, {Op: "sendall"}}
	case "server":
		h.Steps = []HStep{{Op: "recv"}, {Op: "recv"}, {Op: "sendall"}}
	default:
		switch {
		case sp.Proto == "ws":
			if r.Chance(1, 2) {
				h.Steps = []HStep{{Op: "echo"}}
				if len(h.Resps) > len(sp.Msgs) {
					h.Resps = h.Resps[:len(sp.Msgs)]
				}
			} else {
				h.Steps = []HStep{{Op: "sendall"}, {Op: "recvall"}}
			}
		case sp.Codec == "body":
			if r.Chance(1, 2) {
				h.Steps = append(h.Steps, HStep{Op: "bodyreader"})
			} else {
				h.Steps = append(h.Steps, HStep{Op: "recvall"})
			}
			if r.Chance(1, 2) {
				h.Steps = append(h.Steps, HStep{Op: "bodywriter"})
			} else {
				h.Steps = append(h.Steps, HStep{Op: "sendall"})
			}
		default:
			scripts := [][]HStep{
				{{Op: "echo"}, {Op: "sendall"}},
				{{Op: "recvall"}, {Op: "sendall"}},
				{{Op: "sendall"}, {Op: "recvall"}},
			}
			if strings.HasPrefix(sp.Proto, "grpc") {
				// two goroutines on one stream, one for each direction
				scripts = append(scripts, []HStep{{Op: "duplex"}})
			}
			h.Steps = scripts[r.Intn(len(scripts))]
			if len(h.Steps) == 1 && h.Steps[0].Op == "duplex" && r.Chance(1, 2) {
				sp.LazyCtx = true
			}
		}
	}
	if r.Chance(1, 6) {
		h.Code = 1 + r.Intn(16)
		h.Msg = "failing on purpose"
	}
	sp.Handler = h
	sp.ZeroReads = r.Chance(1, 5)
	sp.EOFData = r.Chance(1, 3)
	sp.Slash = sp.Proto == "http" && r.Chance(1, 8)
	if r.Chance(1, 8) {
		sp.Window = r.Pick(1, 64, 300)
	}
	if allowFaults {
		switch f := r.Intn(12); {
		case f < 2:
			sp.Fault.Kind = "abort"
		case f < 3:
			sp.Fault.Kind = "wbreak"
		case f < 4 && !(sp.Proto == "http" && !mi.ClientS):
			sp.Fault.Kind = "cut"
			if sp.Proto == "ws" {
				sp.WSClose = "none"
			}
		}
	}
	if allowFaults && hasOp(h, "duplex") && sp.Fault.Kind == "" && r.Chance(1, 2) {
		// both goroutines of the handler get to call the stream after the
		// context ended
		sp.Fault.Kind = "abort"
	}
	if (sp.Proto == "http" || strings.HasPrefix(sp.Proto, "grpcweb")) && r.Chance(1, 2) {
		sp.Fault.Err = "ueof"
	}
	addZeroMessages(r, &sp)
	// an Accept header that matches nothing the mux offers: the response comes
	// in the request's own representation - whatever other requests, with the
	// same header and another representation, are being answered meanwhile
	if sp.Proto == "http" && (sp.Codec == "json" || sp.Codec == "proto") && sp.Handler.Code == 0 && sp.Fault.Kind == "" && r.Chance(1, 4) {
		sp.Accept = "other"
	}
	if sp.Proto == "http" && r.Chance(1, 5) {
		sp.AcceptGzip = true
	}
	// a Content-Type with a parameter: the codec table is looked up with a
	// string it does not hold
	if sp.Proto == "http" && (sp.Codec == "json" || sp.Codec == "proto") && sp.Fault.Kind == "" && !sp.PingPong && r.Chance(1, 8) {
		sp.CTParam = true
	}
	return sp
}

func genC13(r *core.Rand, run int) *MuxScenario {
	sc := &MuxScenario{Prop: "C13"}
	sc.Knobs = genKnobs(r)
	sc.Knobs.MaxRecv = r.Pick(256, 1024, 4096, 65536, 65536+100)
	k := 2 + r.Intn(5)
	faults := r.Chance(1, 3)
	proxied := run%3 == 0
	if proxied {
		// proxied methods in the mix: TestService lives on a backend, the
		// other services stay local; with faults on, either side of a proxied
		// stream may fail first (backend status, backend kill, client abort)
		sc.Local = []string{"larking.testpb.Files", "larking.testpb.ChatRoom"}
		sc.Backends = []BackendSpec{{Tag: "b1", Services: []string{tsvc}}}
		if sc.Knobs.MaxRecv < 4096 {
			sc.Knobs.MaxRecv = 4096
		}
		if r.Chance(1, 2) {
			// ... and half of the time TestService ALSO has a local handler:
			// two handlers per method, the mux picks one per request
			sc.Local = append(sc.Local, tsvc)
		}
		if r.Chance(1, 4) {
			// the routes of Files were compiled from a backend's reflected
			// descriptors: a second backend registered the proto file first,
			// the local service came afterwards, then that backend left (the
			// routes stay, the local handlers serve them with their own
			// generated messages)
			sc.Local = []string{"larking.testpb.ChatRoom"}
			if len(sc.Local) > 0 && r.Chance(1, 2) {
				sc.Local = append(sc.Local, tsvc)
			}
			sc.Backends = append(sc.Backends, BackendSpec{Tag: "b2", Services: []string{svcFiles}})
			sc.Pre = []RegOp{{Kind: "regsvc", Target: "local", Service: svcFiles}, {Kind: "drop", Target: "b2"}}
		}
	}
	for i := 0; i < k; i++ {
		sp := genMixedRequest(r, i+1, sc.Knobs.MaxRecv, faults)
		if proxied && methods[sp.Method].Service == tsvc {
			if sp.Proto == "ws" {
				sp = genProxiedRequest(r, i+1, sc.Knobs.MaxRecv)
			} else {
				h := genProxiedRequest(r, i+1, sc.Knobs.MaxRecv)
				sp = h
				if !faults {
					sp.Fault.Kind = ""
				}
			}
		}
		sc.Reqs = append(sc.Reqs, sp)
	}
	if r.Chance(1, 4) {
		// a client that sends a frame flagged compressed with garbage in it:
		// the call fails, the pools and everybody else must not notice
		p := ReqSpec{ID: k + 1, Proto: r.PickS("grpc", "grpcweb"), Codec: "proto", Method: "bidi", Compress: true, Poison: true, Weight: 4,
			Msgs:    []MsgSpec{{Size: r.Pick(0, 10, 100), Seed: r.U64() >> 8}},
			Handler: HandlerSpec{FailCode: int(codes.Aborted), PassErr: r.Chance(1, 2), Steps: []HStep{{Op: "recvall"}, {Op: "sendall"}}, Resps: []MsgSpec{{Size: 5, Seed: 1}}}}
		if proxied {
			p.Method = "files" // a local service in the proxied mix
		}
		sc.Reqs = append(sc.Reqs, p)
	}
	fitLimits(sc)
	return sc
}

// interleavings counts how often the schedule switched between two different
// requests (from the rendered slot names r<N>.*).
func interleavings(sim *core.Sim) int {
	prev, n := "", 0
	for _, st := range sim.Trace() {
		name := sim.SlotName(st.Slot)
		if i := strings.IndexByte(name, '.'); i > 0 {
			name = name[:i]
		}
		if !strings.HasPrefix(name, "r") {
			continue
		}
		if prev != "" && name != prev {
			n++
		}
		prev = name
	}
	return n
}

func runC13(t *testing.T, rc *RunCtx) *RunResult {
	sc := loadMuxScenario(rc, genC13)
	tape := rc.NewTape()
	mr := runMuxScenario(t, sc, tape)
	res := &RunResult{}
	mr.fill(res, tape)
	var kinds []string
	for _, rs := range mr.reqs {
		kinds = append(kinds, rs.spec.Proto+"/"+rs.spec.Codec+"/"+rs.spec.Method)
	}
	res.Shape = fmt.Sprintf("k=%d:%s", len(mr.reqs), strings.Join(kinds, ","))
	if mr.sim != nil {
		sw := interleavings(mr.sim)
		res.Counters[cInterleavedRequests] += sw
		res.Nontrivial = sw >= 2
	}
	if v := mr.globalInvariants("C13"); v != nil {
		res.Violation = v
		return res
	}
	if mr.pre != nil {
		for _, rr := range mr.pre.res {
			if rr.Panic != nil || rr.Err != nil || rr.Op.Kind == "drop" && !rr.Dropped {
				res.Violation = violationf("C13", "setup-registration-failed", rr.Op.Kind, "setting the scene: %s %s %s: err=%v panic=%v dropped=%v", rr.Op.Kind, rr.Op.Target, rr.Op.Service, rr.Err, rr.Panic, rr.Dropped)
				return res
			}
		}
	}
	for _, rs := range mr.reqs {
		var v *Violation
		if rs.spec.CTParam {
			continue // served or refused: judged by the global invariants and the race detector only
		}
		if rs.spec.Poison {
			// expected to fail; judged by the global invariants (no panic, it
			// returns) and by what its status text quotes: whatever a codec or
			// a decompressor says about the bytes it refused, they are this
			// request's bytes
			if v := foreignBytesInStatus(mr, rs); v != nil {
				res.Violation = v
				return res
			}
			continue
		}
		if rs.spec.Backend != "" {
			v = oracleProxy(mr, rs, &res.Counters)
			if v != nil {
				v.Property = "C13"
			}
		} else {
			v = oracleStream("C13", mr, rs, &res.Counters)
		}
		if v != nil {
			res.Violation = v
			return res
		}
	}
	return res
}

// looseUnescape undoes Go / C style escapes (\xNN, \uNNNN, \n, \", ...) wherever
// they occur in s, whatever else s contains.
func looseUnescape(s string) []byte {
	out := make([]byte, 0, len(s))
	hex := func(t string) (int, bool) {
		v, err := strconv.ParseUint(t, 16, 32)
		return int(v), err == nil
	}
	for i := 0; i < len(s); i++ {
		if s[i] != '\\' || i+1 >= len(s) {
			out = append(out, s[i])
			continue
		}
		switch c := s[i+1]; c {
		case 'x':
			if i+4 <= len(s) {
				if v, ok := hex(s[i+2 : i+4]); ok {
					out = append(out, byte(v))
					i += 3
					continue
				}
			}
		case 'u':
			if i+6 <= len(s) {
				if v, ok := hex(s[i+2 : i+6]); ok {
					out = utf8.AppendRune(out, rune(v))
					i += 5
					continue
				}
			}
		case 'n', 't', 'r', 'a', 'b', 'f', 'v', '0':
			out = append(out, map[byte]byte{'n': '\n', 't': '\t', 'r': '\r', 'a': 7, 'b': 8, 'f': 12, 'v': 11, '0': 0}[c])
			i++
			continue
		case '"', '\'', '\\':
			out = append(out, c)
			i++
			continue
		}
		out = append(out, s[i])
	}
	return out
}

// foreignBytesInStatus looks for the self-describing header of any other
// request's message (either direction) in the text of rs's final status, as it
// stands and with escapes undone.
func foreignBytesInStatus(mr *muxRun, rs *reqState) *Violation {
	cv := rs.decodeResponse(rs.q.response())
	if cv == nil || cv.Status.Message == "" {
		return nil
	}
	texts := [][]byte{[]byte(cv.Status.Message), looseUnescape(cv.Status.Message)}
	for _, o := range mr.reqs {
		if o == rs || o.spec.payloadID() == rs.spec.payloadID() {
			continue
		}
		look := func(dir byte, ms []MsgSpec) *Violation {
			for i, m := range ms {
				if m.Zero || m.Size < 8 {
					continue
				}
				p := payloadFor(o.spec.payloadID(), i, dir, m)
				for _, t := range texts {
					if bytes.Contains(t, p[:7]) {
						return violationf("C13", "foreign-bytes-in-status", rs.spec.Proto, "request %d (%s) failed as it should, but its status text quotes bytes of request %d's message %c%d: %q", rs.spec.ID, rs.spec.Proto, o.spec.ID, dir, i, cv.Status.Message)
					}
				}
			}
			return nil
		}
		if v := look('C', o.spec.Msgs); v != nil {
			return v
		}
		if v := look('S', o.spec.Handler.Resps); v != nil {
			return v
		}
	}
	return nil
}
