package engine

import (
	"context"
	"fmt"
	"sort"
	"strconv"
	"strings"
	"time"
	"unsafe"

	"larking.io/larking"

	"verif/sim/core"
)

// registrysim: muxsim plus registrar tasks (RegisterService / RegisterConn /
// DropConn, including registrations that must fail), a snapshot monitor, and
// the routing reference model.

type RegOp struct {
	Kind     string   `json:"kind"`               // regsvc | regconn | drop
	Target   string   `json:"target"`             // local | b1 | b2 | b3 | ghost (a connection the mux has never seen)
	Service  string   `json:"service,omitempty"`  // regsvc: the local service
	Adv      []string `json:"adv"`                // regconn: set the backend's advertised services first (nil: unchanged)
	Fail     string   `json:"fail,omitempty"`     // regconn: "" | dead | refl:<j> | cancel
	Schema   int      `json:"schema,omitempty"`   // regconn: 0 = whatever version the backend runs; 1, 2 = redeploy it with that version of its descriptors first
	SimBuild int      `json:"sim_build,omitempty"` // regconn: 0 = as it is; 1 = redeploy the backend on the newer build of the sim/*.proto files first (the default), 2 = on the older one, which the gateway links (User has no email)
}

// regResult is what one registrar operation returned, stamped with driver steps.
type regResult struct {
	Op       RegOp
	Reg, Idx int
	Invoke   int
	Return   int
	Err      error
	Dropped  bool
	Panic    any
	Stack    string
	Done     bool
	AdvAt    []string // services advertised by the target when the operation ran
	SchemaAt int      // version of its descriptors at that time
	SnapBefore, SnapAfter unsafe.Pointer
	FPBefore, FPAfter     string
}

type registrar struct {
	mr    *muxRun
	idx   int
	ops   []RegOp
	slot  *core.Slot
	kslots map[int]*core.Slot // per operation: the task that cancels the context of that registration while it is under way ("cancel-mid")
	res   []*regResult
	// mirrors
	mDone     int
	mInFlight bool
}

//go:norace
func (g *registrar) setProgress(done int, inflight bool) { g.mDone, g.mInFlight = done, inflight }

//go:norace
func (g *registrar) progress() (int, bool) { return g.mDone, g.mInFlight }

// regStart gates the start of registrar operation i in sequential mode: every
// probe of the earlier rounds must have finished.
type regStart struct {
	g *registrar
	i int
}

//go:norace
func (s regStart) Enabled(int) bool {
	mr := s.g.mr
	if !mr.sc.Sequential {
		return true
	}
	for _, r := range mr.reqs {
		if r.spec.Round > 0 && r.spec.Round <= s.i && !(r.q.mReturned && r.mClientDone) {
			return false
		}
	}
	return true
}

// probeStart gates a probe request of round k: exactly k registrar operations
// are complete and none is in flight.
type probeStart struct{ r *reqState }

//go:norace
func (p probeStart) Enabled(int) bool {
	mr := p.r.mr
	if p.r.spec.Round == 0 || len(mr.registrars) == 0 {
		return true
	}
	done, inflight := mr.registrars[0].progress()
	return done >= p.r.spec.Round && !inflight
}

func (g *registrar) run() {
	mr := g.mr
	sim := mr.sim
	sim.Bind(g.slot)
	defer sim.Unbind()
	for i, op := range g.ops {
		if !g.slot.Yield("reg."+op.Kind+"."+op.Target, regStart{g, i}, 0) {
			return
		}
		res := &regResult{Op: op, Reg: g.idx, Idx: i, Invoke: sim.StepNo()}
		g.res = append(g.res, res)
		g.setProgress(i, true)
		g.exec(res)
		res.Return = sim.StepNo()
		res.Done = true
		g.setProgress(i+1, false)
		if sim.Aborting() {
			return
		}
	}
}

func (g *registrar) exec(res *regResult) {
	mr := g.mr
	op := res.Op
	defer func() {
		if p := recover(); p != nil {
			res.Panic = p
			res.Stack = stackString()
		}
	}()
	res.SnapBefore = larking.VerifSnapshot(mr.mux)
	res.FPBefore = larking.VerifFingerprint(res.SnapBefore)
	defer func() {
		res.SnapAfter = larking.VerifSnapshot(mr.mux)
		res.FPAfter = larking.VerifFingerprint(res.SnapAfter)
	}()
	switch op.Kind {
	case "regsvc":
		res.Err = larking.VerifRegisterService(mr.mux, mr.world.serviceDesc(op.Service), mr.world)
	case "regconn":
		b := mr.backendByTag(op.Target)
		if op.Adv != nil {
			b.provider.set(op.Adv)
		}
		if op.Schema != 0 {
			b.provider.setSchema(op.Schema)
		}
		if op.SimBuild != 0 {
			b.provider.setSimOld(op.SimBuild == 2)
		}
		res.AdvAt, res.SchemaAt = b.provider.get(), b.provider.schemaVersion()
		// The caller's context lives on after the call, as context.Background()
		// or a server-lifetime context would: whatever the registration leaves
		// open on the connection stays open (cancelled at teardown). Only a
		// registration that has to give up on a dead backend gets a deadline.
		ctx, cancel := context.WithCancel(context.Background())
		if op.Fail == "dead" || mr.deadBackend(op.Target) {
			cancel()
			ctx, cancel = context.WithTimeout(context.Background(), 5*time.Second)
		}
		mr.addTeardown(cancel)
		switch {
		case op.Fail == "dead":
			b.kill()
			mr.sim.Count(cRegFail)
		case op.Fail == "cancel":
			cancel()
			mr.sim.Count(cRegFail)
		case op.Fail == "cancel-mid" && g.kslots[res.Idx] != nil:
			// the caller's context ends at some step while the registration
			// is under way - or just after it: the tape decides. The
			// registration succeeds or fails, as one.
			stop := make(chan struct{})
			defer close(stop)
			ks := g.kslots[res.Idx]
			go func() {
				if ks.Yield("reg.cancel", core.Always, 0) {
					select {
					case <-stop:
					default:
						cancel()
					}
				}
			}()
			mr.sim.Count(cRegFail)
		case op.Fail == "refl:end":
			// every answer is delivered, and the stream then ends with an
			// error status: the registration may succeed or fail - as one
			b.refl.setEndErr(true)
			defer b.refl.setEndErr(false)
			mr.sim.Count(cRegFail)
		case strings.HasPrefix(op.Fail, "refl:"):
			j, _ := strconv.Atoi(reflJ(op.Fail))
			if strings.HasSuffix(op.Fail, "e") {
				b.refl.setErrReply(j) // "refl:<j>e": that request is answered with an ErrorResponse, the stream lives on
			} else {
				b.refl.setFail(j, strings.HasSuffix(op.Fail, "c")) // "refl:<j>c": the stream ends early with status OK
			}
			defer b.refl.setFailAfter(-1)
			mr.sim.Count(cRegFail)
		}
		res.Err = mr.mux.RegisterConn(ctx, b.cc)
	case "drop":
		b := mr.backendByTag(op.Target)
		res.Dropped = mr.mux.DropConn(context.Background(), b.cc)
	default:
		panic("sim: unknown registrar op " + op.Kind)
	}
}

func stackString() string {
	buf := make([]byte, 16<<10)
	return string(buf[:runtimeStack(buf)])
}

// ---- snapshot monitor -------------------------------------------------------------

type snapCapture struct {
	Ptr  unsafe.Pointer
	FP   string
	Step int
}

type monitor struct {
	mr       *muxRun
	slot     *core.Slot
	captures []snapCapture
	rechecks int
	changed  string
}

func (m *monitor) run(rounds int) {
	for i := 0; i < rounds; i++ {
		if !m.slot.Yield("mon.capture", core.Always, 0) {
			break
		}
		p := larking.VerifSnapshot(m.mr.mux)
		if p != nil {
			m.captures = append(m.captures, snapCapture{p, larking.VerifFingerprint(p), m.mr.sim.StepNo()})
		}
		m.recheck()
	}
}

// recheck re-fingerprints every captured snapshot: a published snapshot must
// never change.
func (m *monitor) recheck() {
	for _, c := range m.captures {
		m.rechecks++
		if now := larking.VerifFingerprint(c.Ptr); now != c.FP && m.changed == "" {
			m.changed = fmt.Sprintf("snapshot %p captured at step %d changed in place by step %d:\n  was %s\n  now %s", c.Ptr, c.Step, m.mr.sim.StepNo(), abbreviate(c.FP, 600), abbreviate(now, 600))
		}
	}
}

func abbreviate(s string, n int) string {
	if len(s) <= n {
		return s
	}
	return s[:n] + "..."
}

// ---- routing reference model --------------------------------------------------------

// liveSet is the model state: which target currently serves which service.
type liveSet map[string]map[string]bool // service -> target -> true

func (l liveSet) clone() liveSet {
	out := liveSet{}
	for s, ts := range l {
		out[s] = map[string]bool{}
		for t := range ts {
			out[s][t] = true
		}
	}
	return out
}

func (l liveSet) key() string {
	var parts []string
	for s, ts := range l {
		for t := range ts {
			parts = append(parts, t+"="+s)
		}
	}
	sort.Strings(parts)
	return strings.Join(parts, ";")
}

func (l liveSet) targets(service string) []string {
	var out []string
	for t := range l[service] {
		out = append(out, t)
	}
	sort.Strings(out)
	return out
}

// A connection registered with an empty service list is still a known
// connection: remembered under the pseudo service "".
func (l liveSet) has(target string) bool {
	for _, ts := range l {
		if ts[target] {
			return true
		}
	}
	return false
}

func (l liveSet) dropTarget(target string) {
	for s, ts := range l {
		delete(ts, target)
		if len(ts) == 0 {
			delete(l, s)
		}
	}
}

func (l liveSet) add(target, service string) {
	if l[service] == nil {
		l[service] = map[string]bool{}
	}
	l[service][target] = true
}

// apply performs a successful operation on the model.
func (l liveSet) apply(res *regResult) {
	switch res.Op.Kind {
	case "regsvc":
		l.add("local", res.Op.Service)
	case "regconn":
		l.dropTarget(res.Op.Target)
		l.add(res.Op.Target, "") // known to the mux even when it advertises nothing
		for _, s := range res.AdvAt {
			for _, m := range fileMates(s) {
				l.add(res.Op.Target, m)
			}
		}
	case "drop":
		l.dropTarget(res.Op.Target)
	}
}

// probeOutcome classifies what a probe request observed.
type probeOutcome struct {
	Served string // tag of the handler that answered ("" if none)
	Unimpl bool   // answered Unimplemented / NotFound
	Unavail bool  // answered Unavailable (a registered backend that is down)
	Other  string // anything else (error text)
}

func (rs *reqState) probeOutcome() probeOutcome {
	if len(rs.servedBy) > 0 {
		return probeOutcome{Served: rs.servedBy[0]}
	}
	resp := rs.q.response()
	cv := rs.decodeResponse(resp)
	switch {
	case resp.Status == 501 && (rs.spec.Proto == "http" || rs.spec.Proto == "ws"):
		// On the HTTP path 501 means "a route matched but its method has no
		// handler". No single routing state contains that (a method's rules
		// and handlers are added and removed together; a method without
		// handlers has no route: 404), so the request saw two states.
		return probeOutcome{Other: "HTTP 501: a route matched but the method had no handler - the request was resolved against two different routing states"}
	case resp.Status == 404 || resp.Status == 501:
		return probeOutcome{Unimpl: true}
	case cv.Status.Present && (cv.Status.Code == 12 || cv.Status.Code == 5):
		return probeOutcome{Unimpl: true}
	case resp.Status == 503 || cv.Status.Present && cv.Status.Code == 14:
		return probeOutcome{Unavail: true}
	}
	return probeOutcome{Other: fmt.Sprintf("HTTP %d grpc-status %v %q body %q", resp.Status, cv.Status.Code, cv.Status.Message, string(resp.Body[:min(len(resp.Body), 160)]))}
}

// ---- history independence -------------------------------------------------------------

// refResult compares what the history's final snapshot routes with what a
// fresh Mux routes after registering, once and in a canonical order, exactly
// what the history left registered (larking's own registration code is the
// reference: the routing state must be a function of the live set, not of how
// it was reached).
type refResult struct {
	Skipped string   // why no comparison was made ("" = compared)
	Err     string   // the reference registration failed
	Skew    bool     // two versions of one proto file were registered at the same time at some point: routes of a version that has left since may legitimately remain (larking keeps a method's rules while the method has a provider), so only missing routes are judged
	Got     []string // larking.VerifRoutes of the history's final snapshot
	Want    []string // ... of the reference
	Live    string   // what was registered on the reference
}

func (mr *muxRun) referenceCheck(world *World) *refResult {
	out := &refResult{}
	var locals []string
	seenLocal := map[string]bool{}
	advOf := map[string][]string{} // target -> what it advertised at its last successful registration
	schemaOf := map[string]int{}   // ... and the version of its descriptors then
	groups := []*registrar{mr.registrars[0]}
	if mr.pre != nil {
		groups = []*registrar{mr.pre, mr.registrars[0]}
	}
	if mr.sc.Local != nil {
		for _, s := range mr.sc.Local {
			if s != "-" && !seenLocal[s] {
				seenLocal[s] = true
				locals = append(locals, s)
			}
		}
	} else {
		for _, s := range localServices {
			seenLocal[s] = true
			locals = append(locals, s)
		}
	}
	for _, g := range groups {
		for _, rr := range g.res {
			if !rr.Done || rr.Panic != nil {
				out.Skipped = "an operation did not complete"
				return out
			}
			switch rr.Op.Kind {
			case "regsvc":
				if rr.Err == nil {
					// (a local service registered twice has two handlers: the
					// reference registers it as often as the history did)
					locals = append(locals, rr.Op.Service)
				}
			case "regconn":
				if rr.Op.Fail == "dead" {
					out.Skipped = "a backend was killed: it cannot be registered again on the reference"
					return out
				}
				if rr.Op.SimBuild != 0 {
					out.Skipped = "a backend changed its build of the sim files: what it can register as now is not what it registered as"
					return out
				}
				if rr.Err == nil {
					advOf[rr.Op.Target] = append([]string{}, rr.AdvAt...)
					schemaOf[rr.Op.Target] = rr.SchemaAt
				}
			case "drop":
				delete(advOf, rr.Op.Target)
			}
			// versions of api/test.proto registered right now
			versions := map[int]bool{}
			inTestProto := func(s string) bool { return s == svcFiles || s == svcMessaging }
			for _, s := range locals {
				if inTestProto(s) {
					versions[1] = true
				}
			}
			for t, adv := range advOf {
				for _, s := range adv {
					if inTestProto(s) {
						versions[schemaOf[t]] = true
					}
				}
			}
			if len(versions) > 1 {
				out.Skew = true
			}
		}
	}
	sort.Strings(locals)
	var targets []string
	for t := range advOf {
		targets = append(targets, t)
	}
	sort.Strings(targets)
	ref, err := larking.NewMux(muxOptions(mr.sc, world)...)
	if err != nil {
		out.Err = "NewMux: " + err.Error()
		return out
	}
	var live []string
	for _, svc := range locals {
		live = append(live, "local="+svc)
		if err := larking.VerifRegisterService(ref, world.serviceDesc(svc), world); err != nil {
			out.Err = "RegisterService(" + svc + ") on the reference: " + err.Error()
			out.Live = strings.Join(live, " ")
			return out
		}
	}
	for _, t := range targets {
		b := mr.backendByTag(t)
		b.provider.set(advOf[t])
		b.provider.setSchema(schemaOf[t])
		live = append(live, t+"="+strings.Join(advOf[t], ",")+"@v"+strconv.Itoa(schemaOf[t]))
		ctx, cancel := context.WithTimeout(context.Background(), 5*time.Second)
		err := ref.RegisterConn(ctx, b.cc)
		cancel()
		if err != nil {
			out.Err = "RegisterConn(" + t + ") on the reference: " + err.Error()
			out.Live = strings.Join(live, " ")
			return out
		}
	}
	out.Live = strings.Join(live, " ")
	routes := func(m *larking.Mux) []string {
		if l := larking.VerifRoutes(larking.VerifSnapshot(m)); len(l) > 0 {
			return l
		}
		return []string{"conns 0"} // nothing was ever published: routes nothing
	}
	out.Got, out.Want = routes(mr.mux), routes(ref)
	return out
}

// diff lists the lines present on one side only.
func (r *refResult) diff() (extra, missing []string) {
	want := map[string]int{}
	for _, l := range r.Want {
		want[l]++
	}
	for _, l := range r.Got {
		if want[l] > 0 {
			want[l]--
		} else {
			extra = append(extra, l)
		}
	}
	got := map[string]int{}
	for _, l := range r.Got {
		got[l]++
	}
	for _, l := range r.Want {
		if got[l] > 0 {
			got[l]--
		} else {
			missing = append(missing, l)
		}
	}
	return
}

func oracleReference(prop string, mr *muxRun, hist string, cnt *[core.NumCounters]int) *Violation {
	r := mr.ref
	if r == nil || r.Skipped != "" {
		return nil
	}
	if r.Err != "" {
		return violationf(prop, "live-set-not-registrable", "reference", "history [%s]: what the history left registered (%s) could not be registered on an empty mux: %s", hist, r.Live, r.Err)
	}
	cnt[cReferenceCompared]++
	extra, missing := r.diff()
	if r.Skew {
		// bindings that only the history has are not judged (see Skew);
		// handler and connection counts are, and so is every missing binding
		var e2 []string
		for _, l := range extra {
			if strings.HasPrefix(l, "handlers ") || strings.HasPrefix(l, "conns ") {
				e2 = append(e2, l)
			}
		}
		extra = e2
	}
	if len(extra)+len(missing) > 0 {
		return violationf(prop, "state-depends-on-history", "reference", "history [%s] left {%s} registered, but its final snapshot does not route what a fresh registration of the same set routes:\n  only after the history: %v\n  only on the fresh mux:  %v", hist, r.Live, extra, missing)
	}
	return nil
}
