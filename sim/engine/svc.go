package engine

import (
	"google.golang.org/protobuf/types/known/anypb"
	"google.golang.org/protobuf/types/dynamicpb"
	"context"
	"encoding/binary"
	"fmt"
	"io"
	"strconv"
	"time"

	"google.golang.org/genproto/googleapis/api/httpbody"
	"google.golang.org/grpc"
	"google.golang.org/grpc/codes"
	grpc_testing "google.golang.org/grpc/interop/grpc_testing"
	"google.golang.org/grpc/metadata"
	"google.golang.org/grpc/status"
	"google.golang.org/protobuf/encoding/protowire"
	"google.golang.org/protobuf/proto"
	"google.golang.org/protobuf/reflect/protoreflect"
	"google.golang.org/protobuf/reflect/protoregistry"
	"larking.io/api/testpb"

	"verif/sim/core"
)

// ---- logical methods ---------------------------------------------------------

type methodInfo struct {
	Key      string
	Service  string
	Name     string
	ClientS  bool
	ServerS  bool
	mkReq    func(payload []byte, pathVar string) proto.Message
	mkResp   func(payload []byte) proto.Message
	mkBody   func(payload []byte) proto.Message // HTTP routes with a body selector: what travels in the body
	newReq   func() proto.Message
	newResp  func() proto.Message
	httpPath func(pathVar string) string // annotated / implicit HTTP path
	httpVerb string                      // verb of the annotated route (default POST)
	httpBodyResp bool                    // the response type is google.api.HttpBody (raw over HTTP)
}

func (m *methodInfo) Full() string { return "/" + m.Service + "/" + m.Name }
func (m *methodInfo) Shape() string {
	switch {
	case m.ClientS && m.ServerS:
		return "bidi"
	case m.ClientS:
		return "client"
	case m.ServerS:
		return "server"
	}
	return "unary"
}

const tsvc = "grpc.testing.TestService"

// pl: a nil payload (MsgSpec.Zero) leaves the field unset, so that the
// message built around it has no field set at all and marshals to zero bytes.
func pl(b []byte) *grpc_testing.Payload {
	if b == nil {
		return nil
	}
	return &grpc_testing.Payload{Body: b}
}

// Besides the payload the request messages carry a few more fields derived
// from it (scalars, an enum-free nested message, a repeated message), so that
// a dropped, defaulted or misplaced field shows up in the comparison on every
// codec and through the proxy's dynamic messages.
func echoStatus(p []byte) *grpc_testing.EchoStatus {
	if len(p) == 0 {
		return nil
	}
	// (the message ends in text drawn from JSON-structural characters: quotes,
	// braces, backslashes - also as the very last character of the string)
	return &grpc_testing.EchoStatus{Code: int32(p[0]) - 100, Message: "st-" + strconv.Itoa(len(p)) + textOf(p[max(0, len(p)-4):])}
}

func respParams(p []byte) []*grpc_testing.ResponseParameters {
	var out []*grpc_testing.ResponseParameters
	for i := 0; i < len(p) && i < 3; i++ {
		out = append(out, &grpc_testing.ResponseParameters{Size: int32(p[i]) + 1, IntervalUs: int32(i)})
	}
	return out
}

var methods = map[string]*methodInfo{
	"unary": {Key: "unary", Service: tsvc, Name: "UnaryCall",
		mkReq: func(p []byte, _ string) proto.Message {
			return &grpc_testing.SimpleRequest{Payload: pl(p), ResponseSize: int32(len(p)) * 3, FillUsername: len(p)%2 == 1, ResponseStatus: echoStatus(p)}
		},
		mkResp: func(p []byte) proto.Message {
			return &grpc_testing.SimpleResponse{Payload: pl(p), Username: "u" + strconv.Itoa(len(p)), Hostname: textOf(p[:min(len(p), 6)])}
		},
		newReq:  func() proto.Message { return &grpc_testing.SimpleRequest{} },
		newResp: func() proto.Message { return &grpc_testing.SimpleResponse{} }},
	"client": {Key: "client", Service: tsvc, Name: "StreamingInputCall", ClientS: true,
		mkReq: func(p []byte, _ string) proto.Message { return &grpc_testing.StreamingInputCallRequest{Payload: pl(p)} },
		mkResp: func(p []byte) proto.Message {
			return &grpc_testing.StreamingInputCallResponse{AggregatedPayloadSize: int32(len(p))*131 + int32(sum8(p))}
		},
		newReq:  func() proto.Message { return &grpc_testing.StreamingInputCallRequest{} },
		newResp: func() proto.Message { return &grpc_testing.StreamingInputCallResponse{} }},
	"server": {Key: "server", Service: tsvc, Name: "StreamingOutputCall", ServerS: true,
		mkReq: func(p []byte, _ string) proto.Message {
			return &grpc_testing.StreamingOutputCallRequest{Payload: pl(p), ResponseParameters: respParams(p), ResponseStatus: echoStatus(p)}
		},
		mkResp:  func(p []byte) proto.Message { return &grpc_testing.StreamingOutputCallResponse{Payload: pl(p)} },
		newReq:  func() proto.Message { return &grpc_testing.StreamingOutputCallRequest{} },
		newResp: func() proto.Message { return &grpc_testing.StreamingOutputCallResponse{} }},
	"bidi": {Key: "bidi", Service: tsvc, Name: "FullDuplexCall", ClientS: true, ServerS: true,
		mkReq: func(p []byte, _ string) proto.Message {
			return &grpc_testing.StreamingOutputCallRequest{Payload: pl(p), ResponseParameters: respParams(p), ResponseStatus: echoStatus(p)}
		},
		mkResp:  func(p []byte) proto.Message { return &grpc_testing.StreamingOutputCallResponse{Payload: pl(p)} },
		newReq:  func() proto.Message { return &grpc_testing.StreamingOutputCallRequest{} },
		newResp: func() proto.Message { return &grpc_testing.StreamingOutputCallResponse{} }},
	// service-config routes with a path variable and a body selector
	// (body: "payload"): the HTTP body carries only the Payload sub-message
	"bidisel": {Key: "bidisel", Service: tsvc, Name: "FullDuplexCall", ClientS: true, ServerS: true,
		mkBody: func(p []byte) proto.Message { return pl(p) },
		mkReq: func(p []byte, pv string) proto.Message {
			m := &grpc_testing.StreamingOutputCallRequest{Payload: pl(p)}
			if pv != "" {
				m.ResponseStatus = &grpc_testing.EchoStatus{Message: pv}
			}
			return m
		},
		mkResp:   func(p []byte) proto.Message { return &grpc_testing.StreamingOutputCallResponse{Payload: pl(p)} },
		newReq:   func() proto.Message { return &grpc_testing.StreamingOutputCallRequest{} },
		newResp:  func() proto.Message { return &grpc_testing.StreamingOutputCallResponse{} },
		httpPath: func(v string) string { return "/v1/duplex/" + v }},
	"unarysel": {Key: "unarysel", Service: tsvc, Name: "UnaryCall",
		mkBody: func(p []byte) proto.Message { return pl(p) },
		mkReq: func(p []byte, pv string) proto.Message {
			n, _ := strconv.Atoi(pv)
			return &grpc_testing.SimpleRequest{Payload: pl(p), ResponseSize: int32(n)}
		},
		mkResp:   func(p []byte) proto.Message { return &grpc_testing.SimpleResponse{Payload: pl(p)} },
		newReq:   func() proto.Message { return &grpc_testing.SimpleRequest{} },
		newResp:  func() proto.Message { return &grpc_testing.SimpleResponse{} },
		httpPath: func(v string) string { return "/v1/unary/" + v }},
	// HttpBody chunk streaming: the request "message" is the raw chunk.
	"files": {Key: "files", Service: "larking.testpb.Files", Name: "LargeUploadDownload", ClientS: true, ServerS: true, httpBodyResp: true,
		mkReq: func(p []byte, pathVar string) proto.Message {
			return &testpb.UploadFileRequest{Filename: pathVar, File: &httpbody.HttpBody{ContentType: "image/jpeg", Data: p}}
		},
		mkResp:   func(p []byte) proto.Message { return &httpbody.HttpBody{ContentType: "image/jpeg", Data: p} },
		newReq:   func() proto.Message { return &testpb.UploadFileRequest{} },
		newResp:  func() proto.Message { return &httpbody.HttpBody{} },
		httpPath: func(v string) string { return "/files/large/" + v }},
	// unary methods with annotated HTTP routes (registrysim probes)
	"upload": {Key: "upload", Service: "larking.testpb.Files", Name: "UploadDownload", httpBodyResp: true,
		mkReq: func(p []byte, pathVar string) proto.Message {
			return &testpb.UploadFileRequest{Filename: pathVar, File: &httpbody.HttpBody{ContentType: "image/jpeg", Data: p}}
		},
		mkResp:   func(p []byte) proto.Message { return &httpbody.HttpBody{ContentType: "image/jpeg", Data: p} },
		newReq:   func() proto.Message { return &testpb.UploadFileRequest{} },
		newResp:  func() proto.Message { return &httpbody.HttpBody{} },
		httpPath: func(v string) string { return "/files/" + v }},
	"getmsg": {Key: "getmsg", Service: "larking.testpb.Messaging", Name: "GetMessageOne", httpVerb: "GET",
		mkReq: func(p []byte, pathVar string) proto.Message {
			if pathVar != "" {
				return &testpb.GetMessageRequestOne{Name: pathVar}
			}
			return &testpb.GetMessageRequestOne{Name: textOf(p)}
		},
		mkResp:   func(p []byte) proto.Message { return &testpb.Message{Text: textOf(p)} },
		newReq:   func() proto.Message { return &testpb.GetMessageRequestOne{} },
		newResp:  func() proto.Message { return &testpb.Message{} },
		httpPath: func(v string) string { return "/v1/messages/" + v }},
	"chat": {Key: "chat", Service: "larking.testpb.ChatRoom", Name: "Chat", ClientS: true, ServerS: true,
		mkReq:    func(p []byte, pathVar string) proto.Message { return &testpb.ChatMessage{Name: pathVar, Text: textOf(p)} },
		mkResp:   func(p []byte) proto.Message { return &testpb.ChatMessage{Name: "srv", Text: textOf(p)} },
		newReq:   func() proto.Message { return &testpb.ChatMessage{} },
		newResp:  func() proto.Message { return &testpb.ChatMessage{} },
		httpPath: func(v string) string { return "/v1/" + v }},
}

func sum8(p []byte) byte {
	var s byte
	for _, b := range p {
		s += b
	}
	return s
}

// textOf turns payload bytes into a string full of JSON-structural characters.
func textOf(p []byte) string {
	alphabet := []rune("ab{}\"\\ :,[]é\n01z日")
	out := make([]rune, 0, len(p))
	for _, b := range p {
		out = append(out, alphabet[int(b)%len(alphabet)])
	}
	return string(out)
}

// payloadFor builds the self-describing payload of message idx of request id.
func payloadFor(reqID, idx int, dir byte, m MsgSpec) []byte {
	if m.Zero {
		return nil
	}
	b := make([]byte, m.Size)
	s := core.Mix(uint64(reqID), uint64(idx), uint64(dir), m.Seed) | 1
	for i := range b {
		s = s*6364136223846793005 + 1442695040888963407
		b[i] = byte(s >> 33)
		if m.Over {
			b[i] = byte(m.Seed) // compresses to almost nothing
		}
	}
	if m.Size >= 8 {
		b[0] = dir
		b[1] = byte(reqID)
		b[2] = byte(idx)
		binary.BigEndian.PutUint32(b[3:7], uint32(m.Size))
	}
	return b
}

// MsgSpec describes one message of a request or response sequence.
type MsgSpec struct {
	// Zero: the message with no field set at all (zero bytes of protobuf,
	// "{}" in JSON), not merely an empty payload.
	Zero bool   `json:"zero,omitempty"`
	// Over: a highly compressible message whose encoding is larger than the
	// receive limit while its gzip frame is smaller (gRPC family with gzip).
	// Refusing it is C08's subject; what C06 cares about is that the handler
	// gets it whole or not at all - never cut down to the limit.
	Over bool `json:"over,omitempty"`
	Size int    `json:"size"`
	Seed uint64 `json:"seed"`
	// Plain: on a stream that negotiated compression this message still goes
	// out with the compressed flag 0 (legal per message; grpc-go does it for
	// empty messages)
	Plain bool `json:"plain,omitempty"`
	// Unknown: the encoded message also carries a field the schema does not
	// declare (a client built against a newer schema); protobuf keeps such
	// fields, so they must arrive
	Unknown bool `json:"unknown,omitempty"`
	// Note: the embedded Payload carries the field that only the backends'
	// build of grpc/testing/messages.proto declares (set on the direct twin of
	// a JSON-fronted call, whose messages carry it through Unknown)
	Note bool `json:"note,omitempty"`
}

// withUnknown adds an undeclared field (number 1000, bytes) to m.
func withUnknown(m proto.Message, seed uint64) proto.Message {
	raw := protowire.AppendTag(nil, 1000, protowire.BytesType)
	raw = protowire.AppendBytes(raw, []byte("future-"+strconv.FormatUint(seed%1000, 10)))
	m.ProtoReflect().SetUnknown(raw)
	return m
}

// ---- handler scripts ---------------------------------------------------------

type HStep struct {
	Op string `json:"op"` // recv | recvall | send | sendall | header | sendheader | trailer | sleep | waitctx | bodyreader | bodywriter
	N  int    `json:"n,omitempty"`
}

type HandlerSpec struct {
	Steps    []HStep   `json:"steps"`
	Resps    []MsgSpec `json:"resps"`
	Code     int       `json:"code"`      // final status when nothing went wrong
	Msg      string    `json:"msg"`       //
	FailCode int       `json:"fail_code"` // final status when a stream call failed
	Details  bool      `json:"details,omitempty"` // attach status details to a non-OK final status
	DetailForeign bool `json:"detail_foreign,omitempty"` // ... and among them one of a message type that only the backend knows (round 14)
	// PassErr: when a stream call failed the handler returns that call's error
	// as it got it ("return err"), instead of a status of its own.
	PassErr bool `json:"pass_err,omitempty"`
}

// HLog is what the scripted handler observed. It is written by the goroutine
// running the handler and read by the root goroutine after the run.
type HLog struct {
	Entered     bool
	EnteredAt   time.Duration
	HasDeadline bool
	Deadline    time.Duration // relative to the start of the run
	Recv        []proto.Message
	RecvEOF     bool
	RecvErr     error
	RecvCalls   int
	Sent        int
	SentMsgs    []proto.Message // the very objects passed to Send (kept to see that nobody touches them afterwards)
	SentIdx     []int
	SendErr     error
	SendErrAt   int
	CtxErrEnd   error
	CtxObserved []string // notes about ctx observations
	Returned    bool
	RetCode     codes.Code
	RetMsg      string
	Calls       []callRec // every Recv/Send with the driver steps at which it started and returned
	Obs         []ctxObs  // ctx.Err() != nil observed each time the script was resumed
	CtxDoneAt   time.Duration
	CtxDoneErr  error
	CtxWaited   bool
	BodyRead    []byte // bytes read through AsHTTPBodyReader
	BodyReadErr error
	HelperErr   error
	MD          metadata.MD
	// norace mirrors
	mSent     int
	mRecv     int
	mRecvDone bool
	mReturned bool
	mEntered  bool
	mInRecv   bool
	mInSend   bool
	mCtxDoneSeen bool
	mWaiting     bool
	mSentMark    [16]int
}

type callRec struct {
	Kind       byte // 'R' or 'S'
	Start, End int  // driver step numbers
	Err        error
	GotMsg     bool
}

type ctxObs struct {
	Step int
	Done bool
}

//go:norace
func (l *HLog) setWaiting() { l.mWaiting = true }

// Enabled(0): the handler is (or was) blocked on ctx.Done(). Used as the gate
// of planned clock jumps.
//
//go:norace
func (l *HLog) Enabled(int) bool { return l.mWaiting }

//go:norace
func (l *HLog) setSent(n int) { l.mSent = n }

// markSent remembers how many response bytes existed when Send number n
// returned: a ping-pong client only sees answer n once that many bytes have
// actually been flushed to it.
//
//go:norace
func (l *HLog) markSent(n, outLen int) {
	if n < len(l.mSentMark) {
		l.mSentMark[n] = outLen
	}
}

//go:norace
func (l *HLog) sentMark(n int) int {
	if n < len(l.mSentMark) {
		return l.mSentMark[n]
	}
	return 0
}

//go:norace
func (l *HLog) sentMirror() int { return l.mSent }

//go:norace
func (l *HLog) setRecv(n int, done bool) { l.mRecv, l.mRecvDone = n, done }

//go:norace
func (l *HLog) setReturned() { l.mReturned = true }

//go:norace
func (l *HLog) returnedMirror() bool { return l.mReturned }

//go:norace
func (l *HLog) setEntered() { l.mEntered = true }

//go:norace
func (l *HLog) enteredMirror() bool { return l.mEntered }

//go:norace
func (l *HLog) setIn(recv, send bool) { l.mInRecv, l.mInSend = recv, send }

//go:norace
func (l *HLog) inRecv() bool { return l.mInRecv }

//go:norace
func (l *HLog) inSend() bool { return l.mInSend }

// World is the handler side of a simulated run: it finds the script of the
// request it is serving through the x-sim-req metadata key.
type World struct {
	sim   *core.Sim
	reqs  map[int]*reqState
	tag   string // identity of this backend ("local", "b1", ...)
	calls int
	// serverMD is one long-lived piece of metadata that every handler of this
	// run passes to SetHeader before its own (as an interceptor adding
	// constant server headers would): it belongs to the handlers, the library
	// may read it and must never keep or change it.
	serverMD metadata.MD // made when the World is (no lazy initialisation: that would synchronise the handlers)
}

func newServerMD() metadata.MD { return metadata.Pairs("x-sim-server", "sim") }

func (w *World) sharedMD() metadata.MD { return w.serverMD }

// sharedMDIntact: nobody wrote to the handlers' shared metadata.
func (w *World) sharedMDIntact() bool {
	if w.serverMD == nil {
		return true
	}
	v := w.serverMD["x-sim-server"]
	return len(w.serverMD) == 1 && len(v) == 1 && v[0] == "sim"
}

func reqIDFromContext(ctx context.Context) int {
	md, _ := metadata.FromIncomingContext(ctx)
	if v := md.Get("x-sim-req"); len(v) > 0 {
		n, err := strconv.Atoi(v[0])
		if err == nil {
			return n
		}
	}
	return -1
}

func (w *World) lookup(ctx context.Context) *reqState {
	return w.reqs[reqIDFromContext(ctx)]
}

func newMsgByDesc(d protoreflect.MessageDescriptor) proto.Message {
	mt, err := protoregistry.GlobalTypes.FindMessageByName(d.FullName())
	if err != nil {
		return dynamicpb.NewMessage(d) // the synthetic files have no generated types
	}
	return mt.New().Interface()
}

// serviceDesc builds a grpc.ServiceDesc whose handlers execute scripts.
func (w *World) serviceDesc(service string) *grpc.ServiceDesc {
	d, err := protoregistry.GlobalFiles.FindDescriptorByName(protoreflect.FullName(service))
	if err != nil {
		panic(err)
	}
	sd := d.(protoreflect.ServiceDescriptor)
	out := &grpc.ServiceDesc{ServiceName: service, HandlerType: (*any)(nil), Metadata: sd.ParentFile().Path()}
	mds := sd.Methods()
	for i := 0; i < mds.Len(); i++ {
		md := mds.Get(i)
		full := "/" + service + "/" + string(md.Name())
		if md.IsStreamingClient() || md.IsStreamingServer() {
			out.Streams = append(out.Streams, grpc.StreamDesc{
				StreamName: string(md.Name()), ClientStreams: md.IsStreamingClient(), ServerStreams: md.IsStreamingServer(),
				Handler: func(srv any, stream grpc.ServerStream) error { return w.stream(full, md, stream) },
			})
			continue
		}
		out.Methods = append(out.Methods, grpc.MethodDesc{
			MethodName: string(md.Name()),
			Handler: func(srv any, ctx context.Context, dec func(any) error, interceptor grpc.UnaryServerInterceptor) (any, error) {
				in := newMsgByDesc(md.Input())
				if err := dec(in); err != nil {
					return nil, err
				}
				h := func(ctx context.Context, req any) (any, error) { return w.unary(ctx, full, md, req.(proto.Message)) }
				if interceptor == nil {
					return h(ctx, in)
				}
				return interceptor(ctx, in, &grpc.UnaryServerInfo{Server: srv, FullMethod: full}, h)
			},
		})
	}
	return out
}

func (w *World) enter(ctx context.Context, rs *reqState) *HLog {
	rs.servedBy = append(rs.servedBy, w.tag)
	l := rs.hlogFor(w.tag)
	l.Entered = true
	l.EnteredAt = w.sim.Now()
	if dl, ok := ctx.Deadline(); ok {
		l.HasDeadline = true
		l.Deadline = w.sim.Now() + time.Until(dl)
	}
	l.MD, _ = metadata.FromIncomingContext(ctx)
	l.setEntered()
	return l
}

// foreignDetail: a status detail whose message type no registry in the gateway
// resolves (the backend's own error type); it has to reach the client as it is.
func foreignDetail() *anypb.Any {
	return &anypb.Any{TypeUrl: "type.googleapis.com/sim.backend.OnlyThere", Value: []byte{0x0a, 0x03, 'a', 'b', 'c', 0x10, 0x07}}
}

func finalStatus(spec *HandlerSpec, failed bool) error {
	code, msg := codes.Code(spec.Code), spec.Msg
	if failed {
		code, msg = codes.Code(spec.FailCode), "handler: stream call failed"
	}
	if code == codes.OK {
		return nil
	}
	if spec.Details && !failed {
		st, err := status.New(code, msg).WithDetails(&grpc_testing.Payload{Body: []byte("detail-" + msg)}, &grpc_testing.EchoStatus{Code: int32(code), Message: "second"})
		if err == nil {
			if spec.DetailForeign {
				p := st.Proto()
				p.Details = append(p.Details, foreignDetail())
				return status.ErrorProto(p)
			}
			return st.Err()
		}
	}
	return status.Error(code, msg)
}

func (w *World) unary(ctx context.Context, full string, md protoreflect.MethodDescriptor, req proto.Message) (proto.Message, error) {
	rs := w.lookup(ctx)
	if rs == nil {
		return nil, status.Errorf(codes.FailedPrecondition, "sim: no script for request (method %s)", full)
	}
	l := w.enter(ctx, rs)
	rs.servedMethods = append(rs.servedMethods, full)
	slot := rs.handlerSlot(w.tag)
	l.Recv = append(l.Recv, proto.Clone(req))
	l.RecvCalls++
	spec := rs.handlerSpec(w.tag)
	failed := false
	for _, st := range spec.Steps {
		if !slot.Yield("h."+st.Op, core.Always, 0) {
			failed = true
			break
		}
		l.Obs = append(l.Obs, ctxObs{w.sim.StepNo(), ctx.Err() != nil})
		switch st.Op {
		case "sleep":
			w.sim.Count(cSlowHandler)
			time.Sleep(time.Duration(st.N) * time.Millisecond)
		case "waitctx":
			l.setWaiting()
			<-ctx.Done()
			l.CtxWaited, l.CtxDoneAt, l.CtxDoneErr = true, w.sim.Now(), ctx.Err()
			l.CtxObserved = append(l.CtxObserved, "done:"+ctx.Err().Error())
		case "header":
			grpc.SetHeader(ctx, w.sharedMD())
			grpc.SetHeader(ctx, metadata.Pairs("x-sim-hdr", strconv.Itoa(rs.spec.ID)))
		case "trailer":
			grpc.SetTrailer(ctx, metadata.Pairs("x-sim-trl", strconv.Itoa(rs.spec.ID)))
		}
	}
	l.CtxErrEnd = ctx.Err()
	err := finalStatus(spec, failed)
	st, _ := status.FromError(err)
	l.Returned, l.RetCode, l.RetMsg = true, st.Code(), st.Message()
	l.setReturned()
	if err != nil {
		return nil, err
	}
	var p []byte
	if len(spec.Resps) > 0 {
		p = payloadFor(rs.spec.payloadID(), 0, 'S', spec.Resps[0])
	}
	l.Sent = 1 // whether it reaches the client is judged from the response bytes
	l.setSent(1)
	out := rs.method.mkResp(p)
	l.SentMsgs, l.SentIdx = append(l.SentMsgs, out), append(l.SentIdx, 0)
	return out, nil
}

func (w *World) stream(full string, md protoreflect.MethodDescriptor, stream grpc.ServerStream) error {
	// A local handler runs on its request's goroutine, which the simulator
	// knows: such a handler can be told its script without asking the stream
	// for its context first (lazy_ctx).
	var ctx context.Context
	var rs *reqState
	if w.tag == "local" {
		if sl := w.sim.CurrentSlot(); sl != nil {
			for _, q := range w.reqs {
				if q.hSlot == sl && q.spec.LazyCtx && len(q.spec.Handler.Steps) == 1 && q.spec.Handler.Steps[0].Op == "duplex" {
					rs, ctx = q, context.Background() // (stands in until the duplex step asks the stream)
				}
			}
		}
	}
	lazy := rs != nil
	if !lazy {
		ctx = stream.Context()
		rs = w.lookup(ctx)
	}
	if rs == nil {
		return status.Errorf(codes.FailedPrecondition, "sim: no script for request (method %s)", full)
	}
	l := w.enter(ctx, rs)
	slot := rs.handlerSlot(w.tag)
	spec := rs.handlerSpec(w.tag)
	recvDone, sendFailed, failed := false, false, false
	torn := false

	recvOne := func() {
		if recvDone {
			return
		}
		m := newMsgByDesc(md.Input())
		l.setIn(true, false)
		start := w.sim.StepNo()
		err := stream.RecvMsg(m)
		l.Calls = append(l.Calls, callRec{Kind: 'R', Start: start, End: w.sim.StepNo(), Err: err, GotMsg: err == nil})
		l.setIn(false, false)
		l.RecvCalls++
		switch {
		case err == io.EOF:
			l.RecvEOF, recvDone = true, true
		case err != nil:
			l.RecvErr, recvDone, failed = err, true, true
		default:
			l.Recv = append(l.Recv, m)
		}
		l.setRecv(len(l.Recv), recvDone)
	}
	sendOne := func(i int) {
		if sendFailed || i >= len(spec.Resps) {
			return
		}
		m := rs.method.mkResp(payloadFor(rs.spec.payloadID(), i, 'S', spec.Resps[i]))
		l.setIn(false, true)
		start := w.sim.StepNo()
		err := stream.SendMsg(m)
		l.Calls = append(l.Calls, callRec{Kind: 'S', Start: start, End: w.sim.StepNo(), Err: err})
		l.SentMsgs, l.SentIdx = append(l.SentMsgs, m), append(l.SentIdx, i)
		l.setIn(false, false)
		if err != nil {
			l.SendErr, l.SendErrAt, sendFailed, failed = err, i, true, true
			return
		}
		l.Sent++
		l.setSent(l.Sent)
		if w.tag == "local" {
			l.markSent(l.Sent, rs.q.outLen())
		}
	}
	yield := func(label string) bool {
		if torn {
			return false
		}
		if !slot.Yield(label, core.Always, 0) {
			torn, failed = true, true
			return false
		}
		l.Obs = append(l.Obs, ctxObs{w.sim.StepNo(), ctx.Err() != nil})
		return true
	}
	next := 0 // next response index for "send"/"sendall"
	for _, st := range spec.Steps {
		if torn {
			break
		}
		switch st.Op {
		case "recv":
			if yield("h.recv") {
				recvOne()
			}
		case "recvall":
			for !recvDone && yield("h.recv") {
				recvOne()
			}
		case "send":
			if yield("h.send") {
				sendOne(next)
				next++
			}
		case "sendall":
			for next < len(spec.Resps) && !sendFailed && yield("h.send") {
				sendOne(next)
				next++
			}
		case "echo": // one response per received message until the request stream ends
			for !recvDone && yield("h.recv") {
				before := len(l.Recv)
				recvOne()
				if len(l.Recv) > before && yield("h.send") {
					sendOne(next)
					next++
				}
			}
		case "duplex":
			// A second goroutine of the handler receives until the request
			// stream ends while this one sends every response: "it is safe
			// to have a goroutine calling SendMsg and another goroutine
			// calling RecvMsg on the same stream at the same time"
			// (grpc.ServerStream). What the receiver saw is merged into the
			// log once it has finished.
			var (
				fin   flagEnabler
				done  = make(chan struct{})
				rRecv []proto.Message
				rCall []callRec
				rEOF  bool
				rErr  error
				rN    int
			)
			h2 := rs.h2Slot
			go func() {
				defer close(done)
				defer fin.set()
				w.sim.Bind(h2)
				defer w.sim.Unbind()
				if lazy {
					_ = stream.Context().Err() // this goroutine's first look at the context
				}
				for h2.Yield("h2.recv", core.Always, 0) {
					m := newMsgByDesc(md.Input())
					start := w.sim.StepNo()
					err := stream.RecvMsg(m)
					rCall = append(rCall, callRec{Kind: 'R', Start: start, End: w.sim.StepNo(), Err: err, GotMsg: err == nil})
					rN++
					if err == io.EOF {
						rEOF = true
						return
					} else if err != nil {
						rErr = err
						return
					}
					rRecv = append(rRecv, m)
					l.setRecv(len(rRecv), false)
				}
			}()
			if lazy {
				ctx = stream.Context() // ... and this one's, unordered with the other's
			}
			for next < len(spec.Resps) && !sendFailed && yield("h.send") {
				sendOne(next)
				next++
			}
			if !slot.Yield("h.join", &fin, 0) {
				torn, failed = true, true
			}
			<-done
			if len(rCall) > 0 && rCall[len(rCall)-1].Err != nil && rCall[len(rCall)-1].Err != io.EOF && l.SendErr != nil && ctx.Err() != nil {
				w.sim.Count(cDuplexAfterCtxEnd) // (approximately: both directions ended in an error)
			}
			l.Recv, l.Calls, l.RecvCalls = append(l.Recv, rRecv...), append(l.Calls, rCall...), l.RecvCalls+rN
			l.RecvEOF, recvDone = rEOF, true
			if rErr != nil {
				l.RecvErr, failed = rErr, true
			}
			l.setRecv(len(l.Recv), true)
		case "header":
			if yield("h.header") {
				// (on a stream that has been cancelled already - a backend
				// stream whose proxy gave up - the refusal is the transport's)
				if err := stream.SetHeader(w.sharedMD()); err != nil && ctx.Err() == nil {
					l.HelperErr = err
				}
				if err := stream.SetHeader(metadata.Pairs("x-sim-hdr", strconv.Itoa(rs.spec.ID))); err != nil && ctx.Err() == nil {
					l.HelperErr = err
				}
			}
		case "sendheader":
			if yield("h.sendheader") {
				if err := stream.SendHeader(metadata.Pairs("x-sim-hdr2", "1")); err != nil {
					l.HelperErr = err
				}
			}
		case "trailer":
			if yield("h.trailer") {
				stream.SetTrailer(metadata.Pairs("x-sim-trl", strconv.Itoa(rs.spec.ID)))
			}
		case "sleep":
			if yield("h.sleep") {
				w.sim.Count(cSlowHandler)
				time.Sleep(time.Duration(st.N) * time.Millisecond)
			}
		case "waitctx":
			if yield("h.waitctx") {
				l.setWaiting()
				<-ctx.Done()
				l.CtxWaited, l.CtxDoneAt, l.CtxDoneErr = true, w.sim.Now(), ctx.Err()
				l.CtxObserved = append(l.CtxObserved, "done:"+ctx.Err().Error())
			}
		case "bodyreader":
			if yield("h.bodyreader") {
				w.bodyReader(rs, l, stream, yield)
				recvDone = true
				l.setRecv(len(l.Recv), true)
				if l.BodyReadErr != nil {
					failed = true
				}
			}
		case "bodywriter":
			if yield("h.bodywriter") {
				if !w.bodyWriter(rs, l, spec, stream, yield) {
					failed = true
				}
				next = len(spec.Resps)
			}
		default:
			panic("sim: unknown handler op " + st.Op)
		}
	}
	l.CtxErrEnd = ctx.Err()
	err := finalStatus(spec, failed)
	if spec.PassErr && l.RecvErr != nil {
		err = l.RecvErr
	} else if spec.PassErr && l.SendErr != nil {
		err = l.SendErr
	}
	if spec.PassErr && failed {
		if rs.spec.Poison && l.RecvErr != nil {
			w.sim.Count(cUndecodablePassedOn)
		}
		// (no looking at the text here: what the error says is for whoever renders it)
		l.Returned, l.RetCode = true, status.Code(err)
		l.setReturned()
		return err
	}
	st, _ := status.FromError(err)
	l.Returned, l.RetCode, l.RetMsg = true, st.Code(), st.Message()
	l.setReturned()
	return err
}

// bodyReader exercises larking.AsHTTPBodyReader: first message without data,
// then the raw request bytes.
func (w *World) bodyReader(rs *reqState, l *HLog, stream grpc.ServerStream, yield func(string) bool) {
	first := rs.method.newReq()
	r, err := asHTTPBodyReader(stream, first)
	if err != nil {
		l.BodyReadErr = fmt.Errorf("AsHTTPBodyReader: %w", err)
		return
	}
	l.Recv = append(l.Recv, first)
	buf := make([]byte, 1+w.sim.Draw(200))
	for yield("h.bodyread") {
		n, err := r.Read(buf)
		l.BodyRead = append(l.BodyRead, buf[:n]...)
		if err == io.EOF {
			l.RecvEOF = true
			return
		}
		if err != nil {
			l.BodyReadErr = err
			return
		}
	}
}

// bodyWriter exercises larking.AsHTTPBodyWriter: the response payloads are
// written as raw bytes.
func (w *World) bodyWriter(rs *reqState, l *HLog, spec *HandlerSpec, stream grpc.ServerStream, yield func(string) bool) bool {
	first := rs.method.mkResp(nil)
	wr, err := asHTTPBodyWriter(stream, first)
	if err != nil {
		l.HelperErr = fmt.Errorf("AsHTTPBodyWriter: %w", err)
		return false
	}
	for i := range spec.Resps {
		if !yield("h.bodywrite") {
			return false
		}
		p := payloadFor(rs.spec.payloadID(), i, 'S', spec.Resps[i])
		if _, err := wr.Write(p); err != nil {
			l.SendErr, l.SendErrAt = err, i
			return false
		}
		l.Sent++
		l.setSent(l.Sent)
	}
	return true
}

// addZeroMessages turns some of the empty-payload messages of a request into
// messages with no field set at all (where the method's messages allow it).
func addZeroMessages(r *core.Rand, sp *ReqSpec) {
	mi := methods[sp.Method]
	if mi == nil || sp.Codec == "body" || mi.httpBodyResp {
		return
	}
	if mi.mkBody == nil {
		for i := range sp.Msgs {
			if sp.Msgs[i].Size == 0 && !sp.Msgs[i].Unknown && r.Chance(1, 2) {
				sp.Msgs[i].Zero = true
			}
		}
	}
	for i := range sp.Handler.Resps {
		if sp.Handler.Resps[i].Size == 0 && r.Chance(1, 2) {
			sp.Handler.Resps[i].Zero = true
		}
	}
}

// flagEnabler gates a park on something another goroutine of the same request
// announces; the announcement itself orders nothing (the channel next to it does).
type flagEnabler struct{ v bool }

//go:norace
func (f *flagEnabler) set() { f.v = true }

//go:norace
func (f *flagEnabler) Enabled(int) bool { return f.v }
