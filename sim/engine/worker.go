// Package engine holds the simulation engines (codecsim, muxsim, registrysim),
// their oracles, and the worker entry point run by the test binary.
package engine

import (
	"encoding/json"
	"fmt"
	"os"
	"runtime"
	"runtime/debug"
	"sort"
	"strconv"
	"strings"
	"testing"
	"time"

	"verif/sim/core"
)

// Violation is one oracle failure of one simulated run.
type Violation struct {
	Property string `json:"property"`
	Rule     string `json:"rule"`    // which oracle rule failed
	Context  string `json:"context"` // coarse context key (transport+codec+shape ...)
	Detail   string `json:"detail"`
}

func (v *Violation) Key() string { return v.Property + "/" + v.Rule + "/" + v.Context }

// RunCtx identifies one run. Scenario/Tape are set when replaying.
type RunCtx struct {
	Prop     string
	Seed     int64
	Run      int
	Tier     string
	Scenario json.RawMessage
	Tape     []uint32
	Replay   bool
}

// ScenarioSeed and TapeSeed derive the two PRNG streams of a run.
func (rc *RunCtx) ScenarioSeed() uint64 {
	return core.Mix(uint64(rc.Seed), core.HashString(rc.Prop), uint64(rc.Run), 0x5ce)
}
func (rc *RunCtx) TapeSeed() uint64 {
	return core.Mix(uint64(rc.Seed), core.HashString(rc.Prop), uint64(rc.Run), 0x7a9e)
}
func (rc *RunCtx) NewTape() *core.Tape {
	if rc.Replay {
		return core.ReplayTape(rc.Tape)
	}
	return core.NewTape(rc.TapeSeed())
}

// RunResult is what an engine reports for one run.
type RunResult struct {
	Scenario   any
	Tape       []uint32
	Violation  *Violation
	Steps      int
	SimTime    time.Duration
	Counters   [core.NumCounters]int
	Shape      string // scenario shape key (for distinct counting and context)
	SchedSig   uint64
	Nontrivial bool
	Digest     uint64
	Trace      []string
	Extra      map[string]int // engine specific totals (e.g. porcupine ok/illegal/unknown)
	Dirty      bool           // the process must not be reused for further runs
}

// Engine runs one simulated execution.
type Engine func(t *testing.T, rc *RunCtx) *RunResult

var engines = map[string]Engine{}

// shrinkers propose smaller scenarios (engine specific, optional).
var shrinkers = map[string]func(json.RawMessage) []json.RawMessage{}

// ReplayFile is the self-contained reproduction of a violation.
type ReplayFile struct {
	Property        string          `json:"property"`
	Engine          string          `json:"engine"`
	Build           string          `json:"build"`
	Seed            int64           `json:"verif_seed"`
	Run             int             `json:"run"`
	Rule            string          `json:"rule"`
	Context         string          `json:"context"`
	Detail          string          `json:"detail"`
	Scenario        json.RawMessage `json:"scenario"`
	Tape            []uint32        `json:"tape"`
	Digest          string          `json:"digest"`
	Trace           []string        `json:"trace"`
	Minimised       bool            `json:"minimised"`
	OrigTapeLen     int             `json:"orig_tape_len"`
	ReplayConfirmed *bool           `json:"replay_confirmed,omitempty"`
}

type sample struct {
	Run      int      `json:"run"`
	Shape    string   `json:"shape"`
	Scenario any      `json:"scenario"`
	TapeLen  int      `json:"tape_len"`
	Trace    []string `json:"trace,omitempty"`
}

// summary is what one worker writes at the end of its range.
type summary struct {
	Type        string         `json:"type"`
	Property    string         `json:"property"`
	From        int            `json:"from"`
	To          int            `json:"to"`
	Next        int            `json:"next"` // first run not executed
	Runs        int            `json:"runs"`
	Steps       int            `json:"steps"`
	SimTimeNs   int64          `json:"sim_time_ns"`
	Counters    map[string]int `json:"counters"`
	Extra       map[string]int `json:"extra"`
	Nontrivial  []string       `json:"nontrivial"` // distinct (shape,schedule) keys of non-trivial runs, hex
	Shapes      map[string]int `json:"shapes"`
	SchedSigs   int            `json:"sched_sigs"`
	Samples     []sample       `json:"samples"`
	Digests     map[string]string `json:"digests,omitempty"` // run -> digest (determinism mode)
	WallS       float64        `json:"wall_s"`
	Race        bool           `json:"race"`
	GoVersion   string         `json:"go_version"`
}

type violationRec struct {
	Type   string     `json:"type"`
	Replay ReplayFile `json:"replay"`
}

// gcEvery: a forced collection every so many runs (pools are drained at the
// start of every run anyway, so where the collection falls does not matter).
const gcEvery = 20

func getenvInt(k string, def int) int {
	if v := os.Getenv(k); v != "" {
		n, err := strconv.Atoi(v)
		if err == nil {
			return n
		}
	}
	return def
}

// WorkerMain is the body of TestWorker. Controlled by environment:
//
//	VERIF_PROP  property id           VERIF_SEED  integer seed
//	VERIF_FROM/VERIF_TO  run range    VERIF_OUT   output file (JSON lines)
//	VERIF_MODE  batch | replay | digests
//	VERIF_REPLAY path of a replay file (mode replay)
//	VERIF_MARK  path of the "current run" marker file
func WorkerMain(t *testing.T) {
	prop := os.Getenv("VERIF_PROP")
	if prop == "" {
		t.Skip("VERIF_PROP not set")
	}
	eng, ok := engines[prop]
	if !ok {
		fmt.Fprintf(os.Stderr, "no engine for property %q\n", prop)
		os.Exit(2)
	}
	runtime.GOMAXPROCS(1)
	// No GC while a run is in progress: a collection empties sync.Pools (and
	// thereby changes buffer capacities and read sizes) at an instant the seed
	// does not control. Collections are forced between runs instead.
	debug.SetGCPercent(-1)
	debug.SetMemoryLimit(6 << 30)
	seed := int64(getenvInt("VERIF_SEED", 1))
	mode := os.Getenv("VERIF_MODE")
	if mode == "" {
		mode = "batch"
	}
	tier := os.Getenv("VERIF_TIER")
	out := os.Stdout
	if p := os.Getenv("VERIF_OUT"); p != "" {
		f, err := os.OpenFile(p, os.O_CREATE|os.O_WRONLY|os.O_APPEND, 0o644)
		if err != nil {
			fmt.Fprintln(os.Stderr, err)
			os.Exit(2)
		}
		defer f.Close()
		out = f
	}
	enc := json.NewEncoder(out)

	if mode == "shrink" {
		data, err := os.ReadFile(os.Getenv("VERIF_REPLAY"))
		if err != nil {
			fmt.Fprintln(os.Stderr, err)
			os.Exit(2)
		}
		var rf ReplayFile
		if err := json.Unmarshal(data, &rf); err != nil {
			fmt.Fprintln(os.Stderr, err)
			os.Exit(2)
		}
		small := shrinkReplay(t, eng, rf, time.Duration(getenvInt("VERIF_BUDGET", 60))*time.Second)
		enc.Encode(violationRec{Type: "shrunk", Replay: small})
		return
	}
	if mode == "dump" {
		run := getenvInt("VERIF_FROM", 0)
		rc := &RunCtx{Prop: prop, Seed: seed, Run: run, Tier: tier}
		res := eng(t, rc)
		scJSON, _ := json.Marshal(res.Scenario)
		rf := ReplayFile{Property: prop, Engine: engineName(prop), Build: "plain", Seed: seed, Run: run,
			Scenario: scJSON, Tape: res.Tape, Digest: fmt.Sprintf("%016x", res.Digest), Trace: res.Trace, OrigTapeLen: len(res.Tape)}
		if res.Violation != nil {
			rf.Rule, rf.Context, rf.Detail = res.Violation.Rule, res.Violation.Context, res.Violation.Detail
		}
		enc.Encode(violationRec{Type: "dump", Replay: rf})
		return
	}
	if mode == "replay" {
		data, err := os.ReadFile(os.Getenv("VERIF_REPLAY"))
		if err != nil {
			fmt.Fprintln(os.Stderr, err)
			os.Exit(2)
		}
		var rf ReplayFile
		if err := json.Unmarshal(data, &rf); err != nil {
			fmt.Fprintln(os.Stderr, err)
			os.Exit(2)
		}
		rc := &RunCtx{Prop: prop, Seed: rf.Seed, Run: rf.Run, Tier: tier, Scenario: rf.Scenario, Tape: rf.Tape, Replay: true}
		res := eng(t, rc)
		rec := map[string]any{"type": "replay", "digest": fmt.Sprintf("%016x", res.Digest), "steps": res.Steps, "trace": res.Trace}
		if res.Violation != nil {
			rec["violation"] = res.Violation
			rec["key"] = res.Violation.Key()
		}
		enc.Encode(rec)
		return
	}

	from, to := getenvInt("VERIF_FROM", 0), getenvInt("VERIF_TO", 1)
	var mark *os.File
	if p := os.Getenv("VERIF_MARK"); p != "" {
		mark, _ = os.OpenFile(p, os.O_CREATE|os.O_WRONLY, 0o644)
	}
	start := time.Now()
	sum := &summary{Type: "summary", Property: prop, From: from, To: to, Counters: map[string]int{}, Extra: map[string]int{},
		Shapes: map[string]int{}, Race: raceEnabled, GoVersion: runtime.Version()}
	if mode == "digests" {
		sum.Digests = map[string]string{}
	}
	nontriv := map[uint64]struct{}{}
	scheds := map[uint64]struct{}{}
	var counters [core.NumCounters]int
	finish := func(next int) {
		sum.Next = next
		for i, c := range counters {
			if c != 0 {
				sum.Counters[counterName(i)] = c
			}
		}
		keys := make([]string, 0, len(nontriv))
		for k := range nontriv {
			keys = append(keys, strconv.FormatUint(k, 16))
		}
		sort.Strings(keys)
		sum.Nontrivial = keys
		sum.SchedSigs = len(scheds)
		sum.WallS = time.Since(start).Seconds()
		enc.Encode(sum)
	}
	for run := from; run < to; run++ {
		if (run-from)%gcEvery == gcEvery-1 {
			runtime.GC()
		}
		if mark != nil {
			mark.WriteAt([]byte(fmt.Sprintf("%-12d\n", run)), 0)
		}
		if raceEnabled {
			fmt.Fprintf(os.Stderr, "VERIF-RUN %d\n", run)
		}
		rc := &RunCtx{Prop: prop, Seed: seed, Run: run, Tier: tier}
		res := eng(t, rc)
		sum.Runs++
		sum.Steps += res.Steps
		if st := res.SimTime; st > 0 {
			if st > time.Hour {
				st = time.Hour // centuries-long jumps towards far-away deadlines would drown everything else
			}
			sum.SimTimeNs += int64(st)
		}
		for i, c := range res.Counters {
			counters[i] += c
		}
		for k, v := range res.Extra {
			sum.Extra[k] += v
		}
		sum.Shapes[res.Shape]++
		scheds[res.SchedSig] = struct{}{}
		if res.Nontrivial {
			nontriv[core.Mix(core.HashString(res.Shape), res.SchedSig)] = struct{}{}
		}
		if sum.Digests != nil {
			sum.Digests[strconv.Itoa(run)] = fmt.Sprintf("%016x", res.Digest)
		}
		if len(sum.Samples) < 3 && res.Nontrivial && (run-from)%7 == 0 {
			tr := res.Trace
			if len(tr) > 60 {
				tr = append(append([]string{}, tr[:60]...), fmt.Sprintf("... %d more", len(res.Trace)-60))
			}
			sum.Samples = append(sum.Samples, sample{Run: run, Shape: res.Shape, Scenario: res.Scenario, TapeLen: len(res.Tape), Trace: tr})
		}
		if res.Violation != nil {
			scJSON, _ := json.Marshal(res.Scenario)
			build := "plain"
			if raceEnabled {
				build = "race"
			}
			enc.Encode(violationRec{Type: "violation", Replay: ReplayFile{
				Property: prop, Engine: engineName(prop), Build: build, Seed: seed, Run: run,
				Rule: res.Violation.Rule, Context: res.Violation.Context, Detail: res.Violation.Detail,
				Scenario: scJSON, Tape: res.Tape, Digest: fmt.Sprintf("%016x", res.Digest), Trace: res.Trace,
				OrigTapeLen: len(res.Tape),
			}})
			finish(run + 1)
			out.Sync()
			os.Exit(3) // a violated run may leave the process dirty: the runner starts a fresh worker
		}
		if res.Dirty {
			finish(run + 1)
			out.Sync()
			os.Exit(4)
		}
	}
	finish(to)
}

func engineName(prop string) string {
	switch prop {
	case "C17":
		return "codecsim"
	case "C11", "C12", "C16":
		return "registrysim"
	}
	return "muxsim"
}

// violationf builds a violation.
func violationf(prop, rule, context, format string, args ...any) *Violation {
	d := fmt.Sprintf(format, args...)
	if len(d) > 2000 {
		d = d[:2000] + "..."
	}
	return &Violation{Property: prop, Rule: rule, Context: context, Detail: d}
}

func trimTrace(tr []string, max int) []string {
	if len(tr) <= max {
		return tr
	}
	out := append([]string{}, tr[:max/2]...)
	out = append(out, fmt.Sprintf("... %d steps elided ...", len(tr)-max))
	return append(out, tr[len(tr)-max/2:]...)
}

func hexPreview(b []byte, max int) string {
	if len(b) <= max {
		return fmt.Sprintf("%x", b)
	}
	return fmt.Sprintf("%x...(%d bytes)", b[:max], len(b))
}

var _ = strings.Join
