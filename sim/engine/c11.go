package engine

import (
	"strconv"
	"encoding/json"
	"fmt"
	"strings"
	"testing"

	"verif/sim/core"
)

// C11 — dispatch follows the live registration set (registrysim, sequential):
// histories of register/drop operations; after every operation a round of
// probe requests over gRPC and HTTP, judged against the routing model.

func init() {
	engines["C11"] = runC11
	shrinkers["C11"] = shrinkRegScenario
}

const (
	svcFiles     = "larking.testpb.Files"
	svcMessaging = "larking.testpb.Messaging"
)

var allProbeServices = []string{tsvc, svcFiles, svcMessaging, svcSimUsers, svcSimOrders, svcSimBad}

// every backend implements every probe service, so a call routed to a backend
// outside the live set is answered (with that backend's tag) and caught
var c11Backends = []BackendSpec{
	{Tag: "b1", Services: allProbeServices},
	{Tag: "b2", Services: allProbeServices},
	{Tag: "b3", Services: allProbeServices},
}

// What a backend advertises by default. A connection is registered for the
// services its backend lists, and for no other service that happens to be
// declared in a file it sent (Files and Messaging share api/test.proto;
// sim/orders.proto imports sim/users.proto, which declares a service too).
// Until session 3 the model followed larking in registering whole files
// (DESIGN sections 9 and 15: defect, repaired).
var defaultAdv = map[string][]string{
	"b1": {tsvc, svcFiles},
	"b2": {tsvc},
	"b3": {svcMessaging},
}

func fileMates(service string) []string { return []string{service} }

var c11Alphabet = []RegOp{
	{Kind: "regsvc", Target: "local", Service: tsvc},
	{Kind: "regsvc", Target: "local", Service: svcFiles},
	{Kind: "regconn", Target: "b1"},
	{Kind: "regconn", Target: "b2"},
	{Kind: "regconn", Target: "b3"},
	{Kind: "drop", Target: "b1"},
	{Kind: "drop", Target: "b2"},
	{Kind: "drop", Target: "b3"},
	{Kind: "regconn", Target: "b1", Adv: []string{svcMessaging}}, // the backend's service set changed
	{Kind: "regconn", Target: "b3", Adv: []string{svcFiles, svcMessaging}}, // two services of one proto file
	{Kind: "regconn", Target: "b3", Adv: []string{}},                       // ... and then nothing at all
	{Kind: "regconn", Target: "b1", Adv: []string{svcMessaging}, Fail: "refl:2"}, // changed AND breaking after the old registration was taken out of the clone
	{Kind: "regconn", Target: "b2", Fail: "refl:1"},
	{Kind: "regconn", Target: "b3", Fail: "cancel"},
	// a backend on the newer build of the sim files, and one on the older build
	// (which cannot serve Users on this mux unless somebody else already does)
	{Kind: "regconn", Target: "b2", SimBuild: 1, Adv: []string{svcSimUsers}},
	{Kind: "regconn", Target: "b3", SimBuild: 2, Adv: []string{svcSimUsers}},
}

type probeKind struct{ method, proto, codec, route, selector string }

var probeKinds = []probeKind{
	{"unary", "grpc", "proto", "", ""}, {"unary", "http", "json", "", ""}, {"unary", "http", "proto", "", ""},
	{"upload", "grpc", "proto", "", ""}, {"upload", "http", "body", "", ""}, {"upload", "http", "json", "implicit", ""},
	{"getmsg", "grpc", "proto", "", ""}, {"getmsg", "http", "json", "", ""}, {"getmsg", "http", "json", "implicit", ""},
	// service-config routes of TestService.UnaryCall that share their literal
	// prefix with annotated routes of Messaging (/v1/...) and Files
	// (/files/...): they must survive whatever happens to those services
	{"raw", "http", "json", "GET /v1/ts/unary", tsvc + ".UnaryCall"}, {"raw", "http", "json", "POST /files/ts/unary", tsvc + ".UnaryCall"},
	{"raw", "http", "json", "POST /v1/ts/unary", tsvc + ".UnaryCall"}, // two verbs on one node
	// four sibling variable nodes under one trie node, owned by three services
	// (two of them by one method): removing one owner must take exactly its
	// nodes away
	{"raw", "http", "json", "GET /zz/a/1", svcMessaging + ".GetMessageOne"}, {"raw", "http", "json", "GET /zz/b/1", svcMessaging + ".GetMessageOne"},
	{"raw", "http", "json", "GET /zz/c/1", tsvc + ".UnaryCall"}, {"raw", "http", "json", "GET /zz/d/1", svcFiles + ".UploadDownload"},
	{"raw", "http", "json", "DELETE /zz/d/1", svcFiles + ".UploadDownload"}, // through the kind * binding of the same method on that node
	// routes of one service below the implicit /Service/Method node of another
	{"raw", "http", "json", "GET /larking.testpb.Messaging/GetMessageOne/x/f1", svcFiles + ".UploadDownload"},
	{"raw", "http", "json", "GET /grpc.testing.TestService/UnaryCall/y/n1", svcMessaging + ".GetMessageOne"},
	// two services in two files, one importing the other
	{"raw", "http", "json", "GET /sim/orders/o1", svcSimOrders + ".GetOrder"}, {"raw", "http", "json", "GET /sim/users/u1", svcSimUsers + ".GetUser"},
	{"raw", "http", "json", "POST /sim.shop.Users/GetUser", svcSimUsers + ".GetUser"},
	// ... asking with a field that only the backends' build of sim/users.proto
	// has (the one the gateway links is older): in the service's own file, and
	// in a file it imports
	{"raw", "http", "json", "GET /sim/users/u2?email=u2%40sim.test", svcSimUsers + ".GetUser"},
	{"raw", "http", "json", "GET /sim/orders/o2?buyer.email=b%40sim.test", svcSimOrders + ".GetOrder"},
	// a service-config rule of the mux that binds that field in the path: it
	// can only be compiled against the newer build
	{"raw", "http", "json", "GET /sim/mail/m1", svcSimUsers + ".GetUser"},
}

// registryRules are the service-config rules every registrysim mux carries.
var registryRules = []RuleSpec{{
	Selector: tsvc + ".UnaryCall", Verb: "get", Template: "/v1/ts/unary",
	// (the first additional binding puts a second verb on the node of the main one)
	Additional: []RuleSpec{{Verb: "post", Template: "/v1/ts/unary", Body: "*"}, {Verb: "post", Template: "/files/ts/unary", Body: "*"}, {Verb: "get", Template: "/zz/{response_status.message=c/*}"}},
}, {
	Selector: svcMessaging + ".GetMessageOne", Verb: "get", Template: "/zz/{name=a/*}",
	Additional: []RuleSpec{{Verb: "get", Template: "/zz/{name=b/*}"}, {Verb: "get", Template: "/grpc.testing.TestService/UnaryCall/y/{name}"}},
}, {
	Selector: svcFiles + ".UploadDownload", Verb: "get", Template: "/zz/{filename=d/*}",
	// (the last one: the rule's own template once more for every verb - one
	// method then holds a verb and kind * on one node)
	Additional: []RuleSpec{{Verb: "get", Template: "/larking.testpb.Messaging/GetMessageOne/x/{filename}"}, {Verb: "custom:*", Template: "/zz/{filename=d/*}"}},
}, {
	// binds a field that only the newer build of sim/users.proto has: a backend
	// on the older build cannot be registered for Users while nobody else
	// provides it (the rule does not compile against its descriptors)
	Selector: svcSimUsers + ".GetUser", Verb: "get", Template: "/sim/mail/{email}",
}}

func mkProbe(r *core.Rand, id int, pk probeKind) ReqSpec {
	sp := ReqSpec{ID: id, Proto: pk.proto, Codec: pk.codec, Method: pk.method, Route: pk.route, Weight: 2,
		PathVar: r.PickS("a", "cat.jpg", "x-1"),
		Msgs:    []MsgSpec{{Size: r.Pick(0, 5, 40), Seed: r.U64() >> 8}},
		Handler: HandlerSpec{FailCode: 10, Resps: []MsgSpec{{Size: r.Pick(0, 7, 30), Seed: r.U64() >> 8}}}}
	if pk.method == "upload" && sp.Msgs[0].Size == 0 {
		sp.Msgs[0].Size = 3 // an empty HTTP body is "no body" for the mux (C03's subject)
	}
	if pk.method == "raw" {
		verb, path, _ := strings.Cut(pk.route, " ")
		sp.Route, sp.Msgs = "", nil
		sp.Raw = &RawProbe{Verb: verb, Path: path, Selector: pk.selector, HasBody: verb == "POST"}
	}
	return sp
}

func genProbes(r *core.Rand, sc *MuxScenario, rounds int, full bool) {
	id := 1
	for round := 1; round <= rounds; round++ {
		for _, pk := range probeKinds {
			reps := 2
			if !full {
				if r.Chance(1, 2) {
					continue
				}
				reps = 1 + r.Intn(2)
			}
			for i := 0; i < reps; i++ {
				sp := mkProbe(r, id, pk)
				sp.Round = round
				sc.Reqs = append(sc.Reqs, sp)
				id++
			}
		}
	}
}

func genC11(r *core.Rand, run int) *MuxScenario {
	sc := &MuxScenario{Prop: "C11", Knobs: Knobs{MaxRecv: 65536}, Local: []string{"-"}, SkipRegister: true, Sequential: true, NoDefaultRules: true, Rules: registryRules}
	sc.Backends = append([]BackendSpec(nil), c11Backends...)
	for i := range sc.Backends {
		sc.Backends[i].Verbose = (run+i)%2 == 1 // two reflection implementations
		sc.Backends[i].DepsFirst = (run+i)%4 == 3 // ... the second one in either order of its answers' files
	}
	var ops []RegOp
	A := len(c11Alphabet)
	short := A + A*A + A*A*A
	full := false
	if run < short {
		// every history of length <= 3, from the run index (mixed radix)
		full = run < A+A*A
		i, n := run, 1
		if i >= A {
			i, n = i-A, 2
		}
		if n == 2 && i >= A*A {
			i, n = i-A*A, 3
		}
		for k := 0; k < n; k++ {
			ops = append(ops, c11Alphabet[i%A])
			i /= A
		}
	} else {
		n := 4 + r.Intn(9)
		for k := 0; k < n; k++ {
			op := c11Alphabet[r.Intn(A)]
			switch r.Intn(24) {
			case 0:
				op = RegOp{Kind: "regsvc", Target: "local", Service: svcMessaging}
			case 1:
				op = RegOp{Kind: "regconn", Target: r.PickS("b1", "b2", "b3"), Fail: r.PickS("refl:0", "refl:1", "refl:2", "refl:3", "cancel", "refl:1c", "refl:2c", "refl:3c", "refl:0e", "refl:1e", "refl:2e", "refl:end", "refl:end", "cancel-mid", "cancel-mid", "cancel-mid")}
				if r.Chance(1, 2) {
					op.Adv = [][]string{{tsvc}, {svcFiles}, {svcMessaging}, {tsvc, svcMessaging}}[r.Intn(4)]
				}
			case 2:
				op = RegOp{Kind: "regconn", Target: r.PickS("b2", "b3"), Adv: [][]string{{tsvc}, {svcFiles}, {tsvc, svcMessaging}, {}, {svcFiles, svcMessaging}, {tsvc, svcFiles, svcMessaging}, {svcMessaging, svcFiles},
					{svcSimOrders}, {svcSimUsers}, {svcSimOrders, svcSimUsers}, {svcSimUsers, svcSimOrders}, {tsvc, svcSimOrders}, {svcSimUsers, tsvc},
					// ... or one whose descriptors carry an uncompilable rule (the registration must fail, and change nothing)
					{svcSimBad}, {tsvc, svcSimBad}, {svcSimUsers, svcSimBad}}[r.Intn(16)]}
			case 3:
				if k > n/2 {
					op = RegOp{Kind: "regconn", Target: "b3", Fail: "dead"}
				}
			case 6:
				// the backend was redeployed on the older or the newer build of
				// the sim files before it registers
				op = RegOp{Kind: "regconn", Target: r.PickS("b2", "b3"), SimBuild: 1 + r.Intn(2),
					Adv: [][]string{{svcSimUsers}, {svcSimUsers, tsvc}, {svcSimOrders, svcSimUsers}, {svcSimOrders}, {tsvc}}[r.Intn(5)]}
			case 4, 5:
				// the backend was redeployed with another version of its
				// descriptors (one HTTP binding moved) before it registers
				op = RegOp{Kind: "regconn", Target: r.PickS("b1", "b3", "b3"), Schema: 1 + r.Intn(2)}
				if op.Target == "b1" || r.Chance(1, 3) {
					op.Adv = [][]string{{svcMessaging}, {svcFiles, svcMessaging}, {tsvc, svcMessaging}}[r.Intn(3)]
				}
			}
			ops = append(ops, op)
		}
	}
	sc.Registrars = [][]RegOp{ops}
	genProbes(r, sc, len(ops), full)
	// Once a backend has been put on the older build of the sim files, builds
	// of one file may be registered side by side; what a request that uses the
	// newer field meets there is not stated (it may be handed to the backend
	// that does not know the field). Such requests are not made from then on.
	for k, op := range ops {
		if op.SimBuild != 2 {
			continue
		}
		var keep []ReqSpec
		for _, rq := range sc.Reqs {
			if rq.Round > k && rq.Raw != nil && (strings.Contains(rq.Raw.Path, "email") || strings.HasPrefix(rq.Raw.Path, "/sim/mail/")) {
				continue
			}
			keep = append(keep, rq)
		}
		sc.Reqs = keep
		break
	}
	return sc
}

func historyString(ops []RegOp) string {
	var parts []string
	for _, op := range ops {
		s := op.Kind + ":" + op.Target
		if op.Service != "" {
			s += ":" + op.Service[strings.LastIndex(op.Service, ".")+1:]
		}
		if op.Adv != nil {
			s += ":adv"
		}
		if op.Fail != "" {
			s += ":" + op.Fail
		}
		if op.Schema != 0 {
			s += ":v" + strconv.Itoa(op.Schema)
		}
		if op.SimBuild != 0 {
			s += ":sim" + []string{"", "new", "old"}[op.SimBuild]
		}
		parts = append(parts, s)
	}
	return strings.Join(parts, " ")
}

func runC11(t *testing.T, rc *RunCtx) *RunResult {
	sc := loadMuxScenario(rc, genC11)
	tape := rc.NewTape()
	mr := runMuxScenario(t, sc, tape)
	res := &RunResult{Extra: map[string]int{}}
	mr.fill(res, tape)
	res.Shape = "h=" + historyString(sc.Registrars[0])
	res.Nontrivial = true
	res.Violation = oracleRegistrySequential("C11", mr, res)
	return res
}

// oracleRegistrySequential replays the registrar's results through the model
// and judges every probe round.
func oracleRegistrySequential(prop string, mr *muxRun, res *RunResult) *Violation {
	cnt := &res.Counters
	for _, g := range mr.registrars {
		for _, rr := range g.res {
			if rr.Panic != nil {
				return violationf(prop, "registration-panic", rr.Op.Kind+"@"+larkingFrame(rr.Stack), "operation %d (%s) panicked: %v\nhistory: %s\n%s", rr.Idx, historyString([]RegOp{rr.Op}), rr.Panic, historyString(g.ops), trimStack(rr.Stack))
			}
		}
	}
	if v := mr.globalInvariants(prop); v != nil {
		return v
	}
	g := mr.registrars[0]
	model := liveSet{}
	dead := map[string]bool{}
	states := map[string]bool{}
	simOld := map[string]bool{} // targets that run the older build of the sim files right now
	simMixed := false           // an older build was registered for Users or Orders at some point
	for k, rr := range g.res {
		op := rr.Op
		hist := historyString(g.ops[:k+1])
		ctx := op.Kind
		if op.Fail != "" {
			ctx += "+" + strings.SplitN(op.Fail, ":", 2)[0]
		}
		if !rr.Done {
			return violationf(prop, "operation-never-returned", ctx, "operation %d of history [%s] did not return", k, hist)
		}
		mustFail := op.Fail != "" && op.Fail != "cancel-mid" || op.Kind == "regconn" && dead[op.Target]
		for _, s := range rr.AdvAt {
			if s == svcSimBad && op.Kind == "regconn" {
				mustFail = true // its HTTP rule binds a field that does not exist
			}
		}
		mayFail := op.Fail == "cancel-mid"
		if op.SimBuild != 0 {
			simOld[op.Target] = op.SimBuild == 2
		}
		if op.Kind == "regconn" && simOld[op.Target] && op.Fail == "" && !dead[op.Target] {
			users, orders := false, false
			for _, s := range rr.AdvAt {
				users = users || s == svcSimUsers
				orders = orders || s == svcSimOrders
			}
			others := 0
			for _, tgt := range model.targets(svcSimUsers) {
				if tgt != op.Target {
					others++
				}
			}
			switch {
			case users && others == 0 && !simMixed:
				// the mux's rule GET /sim/mail/{email} has to be compiled
				// against this backend's User, which has no such field
				mustFail = true
			case users:
				mayFail = true // the rule is there already, compiled against somebody else's build
			}
			if (users || orders) && rr.Err == nil {
				simMixed = true // builds of one file side by side: what a request with the newer field meets is not stated
			}
		}
		if strings.HasPrefix(op.Fail, "refl:") && !dead[op.Target] {
			// the reflection stream breaks after j replies: whether that is
			// fatal depends on how many replies this registration needs
			// (one for the service list, then one per file request; none of
			// the latter when nothing is advertised or nothing changed)
			j := reflJ(op.Fail)
			if !(j == "0" || j == "1" && len(rr.AdvAt) > 0) {
				mustFail, mayFail = false, true
			}
		}
		if op.Fail == "dead" {
			dead[op.Target] = true
		}
		switch op.Kind {
		case "regsvc", "regconn":
			if mustFail {
				cnt[cFailedRegistration]++
				if rr.Err == nil {
					why := op.Fail
					if why == "" {
						why = "its descriptors do not compile: an HTTP rule binds a field its messages do not have"
					}
					return violationf(prop, "broken-registration-accepted", ctx, "history [%s]: the registration could not have completed (%s) but returned nil", hist, why)
				}
				if rr.SnapAfter != rr.SnapBefore || rr.FPAfter != rr.FPBefore {
					return violationf(prop, "failed-registration-changed-state", ctx, "history [%s]: the failed registration (%v) changed the published routing state", hist, rr.Err)
				}
			} else if rr.Err != nil && mayFail {
				cnt[cFailedRegistration]++
				if rr.SnapAfter != rr.SnapBefore || rr.FPAfter != rr.FPBefore {
					return violationf(prop, "failed-registration-changed-state", ctx, "history [%s]: the failed registration (%v) changed the published routing state", hist, rr.Err)
				}
			} else if rr.Err != nil {
				return violationf(prop, "safe-registration-failed", ctx, "history [%s]: operation %d returned %v", hist, k, rr.Err)
			}
			if rr.Err == nil {
				if op.Kind == "regconn" {
					if model.has(op.Target) {
						cnt[cReRegister]++
					}
					for _, s := range rr.AdvAt {
						if ts := model.targets(s); len(ts) > 0 && !(len(ts) == 1 && ts[0] == op.Target) {
							cnt[cSecondBackend]++
						}
					}
				}
				model.apply(rr)
			}
		case "drop":
			known := model.has(op.Target)
			if known {
				cnt[cDropKnown]++
			} else {
				cnt[cDropUnknown]++
			}
			if rr.Dropped != known {
				return violationf(prop, "drop-return-value", ctx, "history [%s]: DropConn(%s) returned %v, the connection was registered: %v", hist, op.Target, rr.Dropped, known)
			}
			model.apply(rr)
		}
		states[model.key()+"|"+op.Kind] = true
		// probes of the round after operation k
		for _, rs := range mr.reqs {
			if rs.spec.Round != k+1 {
				continue
			}
			svc := rs.method.Service
			if simMixed && (svc == svcSimUsers || svc == svcSimOrders) {
				continue
			}
			want := model.targets(svc)
			out := rs.probeOutcome()
			pctx := ctx + "/" + rs.spec.Proto + "/" + rs.method.Key + "/" + rs.spec.Route
			switch {
			case out.Served != "":
				cnt[cProbeServed]++
				ok := false
				for _, tgt := range want {
					if tgt == out.Served {
						ok = true
					}
				}
				if !ok {
					return violationf(prop, "served-by-non-live-target", pctx, "history [%s]: %s %s was answered by %q; live targets for %s: %v", hist, rs.spec.Proto, rs.method.Full(), out.Served, svc, want)
				}
				if len(rs.servedBy) > 1 {
					return violationf(prop, "served-twice", pctx, "history [%s]: one request reached %v", hist, rs.servedBy)
				}
				if rs.spec.Raw != nil && len(rs.servedMethods) > 0 && rs.servedMethods[0] != rs.method.Full() {
					return violationf(prop, "routed-to-wrong-method", pctx, "history [%s]: %s %s reached %s, its route belongs to %s", hist, rs.spec.Raw.Verb, rs.spec.Raw.Path, rs.servedMethods[0], rs.method.Full())
				}
				if rs.spec.Raw == nil {
					if v := oracleStream(prop, mr, rs, cnt); v != nil {
						v.Detail = "history [" + hist + "]: " + v.Detail
						return v
					}
				}
			case out.Unimpl:
				cnt[cProbeUnimplemented]++
				if len(want) > 0 {
					return violationf(prop, "live-method-unimplemented", pctx, "history [%s]: %s %s was answered Unimplemented/NotFound although %v serve %s", hist, rs.spec.Proto, rs.method.Full(), want, svc)
				}
			case out.Unavail && func() bool {
				for _, tgt := range want {
					if dead[tgt] {
						return true
					}
				}
				return false
			}():
				// routed to a registered backend that was killed: Unavailable is the honest answer
			default:
				return violationf(prop, "probe-error", pctx, "history [%s]: %s %s (live targets %v): %s", hist, rs.spec.Proto, rs.method.Full(), want, out.Other)
			}
		}
	}
	res.Extra["model_states_x_last_op"] += len(states)
	// the final snapshot routes exactly what a fresh registration of the live
	// set routes
	if v := oracleReference(prop, mr, historyString(g.ops), cnt); v != nil {
		return v
	}
	return nil
}

// shrinkRegScenario: drop a registrar operation (with its probe round), drop
// probes, then the generic mux shrinks.
func shrinkRegScenario(raw json.RawMessage) []json.RawMessage {
	var sc MuxScenario
	if json.Unmarshal(raw, &sc) != nil {
		return nil
	}
	var out []json.RawMessage
	emit := func(c *MuxScenario) {
		b, _ := json.Marshal(c)
		out = append(out, b)
	}
	clone := func() *MuxScenario {
		var c MuxScenario
		b, _ := json.Marshal(&sc)
		json.Unmarshal(b, &c)
		return &c
	}
	if len(sc.Registrars) == 1 {
		ops := sc.Registrars[0]
		for k := range ops {
			c := clone()
			c.Registrars[0] = append(c.Registrars[0][:k], c.Registrars[0][k+1:]...)
			var reqs []ReqSpec
			for _, r := range c.Reqs {
				switch {
				case r.Round == k+1:
					continue
				case r.Round > k+1:
					r.Round--
				}
				reqs = append(reqs, r)
			}
			c.Reqs = reqs
			emit(c)
		}
	} else {
		for g := range sc.Registrars {
			for k := range sc.Registrars[g] {
				c := clone()
				c.Registrars[g] = append(c.Registrars[g][:k], c.Registrars[g][k+1:]...)
				emit(c)
			}
		}
	}
	// drop whole probe rounds, then halves, then single probes
	if n := len(sc.Reqs); n > 1 {
		c := clone()
		c.Reqs = c.Reqs[:n/2]
		emit(c)
		c = clone()
		c.Reqs = c.Reqs[n/2:]
		emit(c)
		if n <= 24 {
			for i := range sc.Reqs {
				c := clone()
				c.Reqs = append(c.Reqs[:i], c.Reqs[i+1:]...)
				emit(c)
			}
		}
	}
	if sc.Monitor > 0 {
		c := clone()
		c.Monitor = 0
		emit(c)
	}
	return out
}

var _ = fmt.Sprintf
