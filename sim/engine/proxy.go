package engine

import "verif/sim/core"

// BackendSpec describes one in-bubble gRPC backend (filled in by proxy engines).
type BackendSpec struct {
	Tag      string   `json:"tag"`
	Services []string `json:"services"`
}

type backend struct{}

func (mr *muxRun) startBackends(sim *core.Sim, world *World) error { return nil }
func (mr *muxRun) stopBackends()                                  {}
