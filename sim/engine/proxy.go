package engine

import (
	"strings"
	"context"
	"errors"
	"io"
	"net"
	"sync"
	"time"

	"google.golang.org/grpc"
	"google.golang.org/grpc/credentials/insecure"
	"google.golang.org/grpc/reflection"
	rpb "google.golang.org/grpc/reflection/grpc_reflection_v1alpha"
	"google.golang.org/grpc/test/bufconn"
	"google.golang.org/protobuf/proto"
	"google.golang.org/protobuf/reflect/protodesc"
	"google.golang.org/protobuf/reflect/protoreflect"
	"google.golang.org/protobuf/reflect/protoregistry"
	"google.golang.org/protobuf/types/descriptorpb"
	"google.golang.org/protobuf/types/dynamicpb"
	"google.golang.org/genproto/googleapis/api/annotations"

	"verif/sim/core"
)

// BackendSpec describes one real grpc-go server running inside the bubble and
// reached by larking through a *grpc.ClientConn over an in-memory connection.
type BackendSpec struct {
	Tag      string   `json:"tag"`
	Services []string `json:"services"` // implemented and (by default) advertised
	Verbose  bool     `json:"verbose_reflection,omitempty"` // reflection answers repeat files already sent on the stream
	DepsFirst bool    `json:"deps_first,omitempty"`          // ... and list a file's dependencies before the file itself (the protocol states no order)
}

// svcProvider is the ServiceInfoProvider of a backend's reflection service:
// the advertised set can differ from the implemented one and can change
// between two registrations of the same connection.
type svcProvider struct {
	mu         sync.Mutex
	advertised []string
	schema     int // 0/1: the descriptors as generated; 2: a redeployed version (see schemaV2)
	simOld     bool // the backend runs the older build of the sim/*.proto files (the one the gateway links)
}

func (p *svcProvider) setSimOld(v bool) {
	p.mu.Lock()
	p.simOld = v
	p.mu.Unlock()
}

// files: the backend's own build of everything that is not api/test.proto.
func (p *svcProvider) files() chainResolver {
	p.mu.Lock()
	defer p.mu.Unlock()
	return chainResolver{first: simBackendFiles, then: protoregistry.GlobalFiles, skipSim: p.simOld}
}

func (p *svcProvider) setSchema(v int) {
	p.mu.Lock()
	p.schema = v
	p.mu.Unlock()
}

func (p *svcProvider) schemaVersion() int {
	p.mu.Lock()
	defer p.mu.Unlock()
	if p.schema == 0 {
		return 1
	}
	return p.schema
}

// schemaV2 is api/test.proto as a redeployed backend would describe it: the
// HTTP binding of Messaging.UpdateMessageBody (a method no probe uses) moved
// from PATCH /v1/messages/{message_id}/body to PATCH /v2/messages/{message_id}/body2.
var schemaV2File, schemaV2Files = func() (protoreflect.FileDescriptor, *protoregistry.Files) {
	d, err := protoregistry.GlobalFiles.FindDescriptorByName("larking.testpb.Messaging")
	if err != nil {
		panic(err)
	}
	fdp := protodesc.ToFileDescriptorProto(d.ParentFile())
	done := false
	for _, s := range fdp.Service {
		if s.GetName() != "Messaging" {
			continue
		}
		for _, m := range s.Method {
			if m.GetName() != "UpdateMessageBody" {
				continue
			}
			opts := proto.Clone(m.Options).(*descriptorpb.MethodOptions)
			rule := proto.Clone(proto.GetExtension(opts, annotations.E_Http).(*annotations.HttpRule)).(*annotations.HttpRule)
			rule.Pattern = &annotations.HttpRule_Patch{Patch: "/v2/messages/{message_id}/body2"}
			proto.SetExtension(opts, annotations.E_Http, rule)
			m.Options = opts
			done = true
		}
	}
	if !done {
		panic("sim: Messaging.UpdateMessageBody not found")
	}
	fd, err := protodesc.NewFile(fdp, protoregistry.GlobalFiles)
	if err != nil {
		panic(err)
	}
	files := &protoregistry.Files{}
	if err := files.RegisterFile(fd); err != nil {
		panic(err)
	}
	return fd, files
}()

// Two synthetic proto files, registered globally at start-up: sim/users.proto
// (service sim.shop.Users) and sim/orders.proto, which imports it (service
// sim.shop.Orders, whose messages embed a User). A backend that advertises
// Orders makes larking fetch both files - the second one as a dependency of
// the first - and both carry a service.
const (
	svcSimUsers  = "sim.shop.Users"
	svcSimOrders = "sim.shop.Orders"
	svcSimBad    = "sim.shop.Bad"
)

func init() {
	str := func(s string) *string { return &s }
	i32 := func(i int32) *int32 { return &i }
	httpGet := func(path string) *descriptorpb.MethodOptions {
		o := &descriptorpb.MethodOptions{}
		proto.SetExtension(o, annotations.E_Http, &annotations.HttpRule{Pattern: &annotations.HttpRule_Get{Get: path}})
		return o
	}
	lbl, tStr, tMsg := descriptorpb.FieldDescriptorProto_LABEL_OPTIONAL.Enum(), descriptorpb.FieldDescriptorProto_TYPE_STRING.Enum(), descriptorpb.FieldDescriptorProto_TYPE_MESSAGE.Enum()
	users := &descriptorpb.FileDescriptorProto{
		Name: str("sim/users.proto"), Package: str("sim.shop"), Syntax: str("proto3"),
		Dependency: []string{"google/api/annotations.proto"},
		MessageType: []*descriptorpb.DescriptorProto{{Name: str("User"), Field: []*descriptorpb.FieldDescriptorProto{
			{Name: str("id"), JsonName: str("id"), Number: i32(1), Label: lbl, Type: tStr},
			{Name: str("name"), JsonName: str("name"), Number: i32(2), Label: lbl, Type: tStr},
		}}},
		Service: []*descriptorpb.ServiceDescriptorProto{{Name: str("Users"), Method: []*descriptorpb.MethodDescriptorProto{
			{Name: str("GetUser"), InputType: str(".sim.shop.User"), OutputType: str(".sim.shop.User"), Options: httpGet("/sim/users/{id}")},
		}}},
	}
	orders := &descriptorpb.FileDescriptorProto{
		Name: str("sim/orders.proto"), Package: str("sim.shop"), Syntax: str("proto3"),
		Dependency: []string{"google/api/annotations.proto", "sim/users.proto"},
		MessageType: []*descriptorpb.DescriptorProto{{Name: str("Order"), Field: []*descriptorpb.FieldDescriptorProto{
			{Name: str("id"), JsonName: str("id"), Number: i32(1), Label: lbl, Type: tStr},
			{Name: str("buyer"), JsonName: str("buyer"), Number: i32(2), Label: lbl, Type: tMsg, TypeName: str(".sim.shop.User")},
		}}},
		Service: []*descriptorpb.ServiceDescriptorProto{{Name: str("Orders"), Method: []*descriptorpb.MethodDescriptorProto{
			{Name: str("GetOrder"), InputType: str(".sim.shop.Order"), OutputType: str(".sim.shop.Order"), Options: httpGet("/sim/orders/{id}")},
		}}},
	}
	// ... and a third one whose only HTTP rule names a field that does not
	// exist: a backend that advertises it cannot be registered, and the refusal
	// comes after the whole reflection exchange has succeeded
	bad := &descriptorpb.FileDescriptorProto{
		Name: str("sim/bad.proto"), Package: str("sim.shop"), Syntax: str("proto3"),
		Dependency: []string{"google/api/annotations.proto", "sim/users.proto"},
		Service: []*descriptorpb.ServiceDescriptorProto{{Name: str("Bad"), Method: []*descriptorpb.MethodDescriptorProto{
			{Name: str("GetBad"), InputType: str(".sim.shop.User"), OutputType: str(".sim.shop.User"), Options: httpGet("/sim/bad/{no_such_field}")},
		}}},
	}
	for _, fdp := range []*descriptorpb.FileDescriptorProto{users, orders, bad} {
		fd, err := protodesc.NewFile(fdp, protoregistry.GlobalFiles)
		if err != nil {
			panic(err)
		}
		if err := protoregistry.GlobalFiles.RegisterFile(fd); err != nil {
			panic(err)
		}
	}
	// What the gateway's binary links (above) is not what the backends run:
	// they have been redeployed with a newer sim/users.proto, in which User has
	// one more field, and with the files that import it built against that one.
	// The descriptors of a method discovered by reflection are the backend's -
	// for the service's own file and for everything it imports.
	users.MessageType[0].Field = append(users.MessageType[0].Field,
		&descriptorpb.FieldDescriptorProto{Name: str("email"), JsonName: str("email"), Number: i32(3), Label: lbl, Type: tStr})
	for _, fdp := range []*descriptorpb.FileDescriptorProto{users, orders, bad} {
		fd, err := protodesc.NewFile(fdp, chainResolver{first: simBackendFiles, then: protoregistry.GlobalFiles})
		if err != nil {
			panic(err)
		}
		if err := simBackendFiles.RegisterFile(fd); err != nil {
			panic(err)
		}
	}
}

// simBackendFiles holds the backends' (newer) build of the synthetic files.
var simBackendFiles = &protoregistry.Files{}

// The backends also run a newer build of grpc/testing/messages.proto than the
// gateway links: the embedded message Payload has one more field, note = 15.
// The top-level request and reply messages of TestService are what they were,
// so a gateway that compares a reflected message with its own generated type
// of the same name only at the top level - and then uses the generated type -
// cannot carry the field. grpc/testing/test.proto is rebuilt against it.
func init() {
	msgs, err := protoregistry.GlobalFiles.FindFileByPath("grpc/testing/messages.proto")
	if err != nil {
		panic(err)
	}
	fdp := protodesc.ToFileDescriptorProto(msgs)
	done := false
	for _, m := range fdp.MessageType {
		if m.GetName() == "Payload" {
			m.Field = append(m.Field, &descriptorpb.FieldDescriptorProto{Name: proto.String("note"), JsonName: proto.String("note"), Number: proto.Int32(15),
				Label: descriptorpb.FieldDescriptorProto_LABEL_OPTIONAL.Enum(), Type: descriptorpb.FieldDescriptorProto_TYPE_STRING.Enum()})
			done = true
		}
	}
	if !done {
		panic("sim: grpc.testing.Payload not found")
	}
	svc, err := protoregistry.GlobalFiles.FindDescriptorByName(protoreflect.FullName(tsvc))
	if err != nil {
		panic(err)
	}
	for _, f := range []*descriptorpb.FileDescriptorProto{fdp, protodesc.ToFileDescriptorProto(svc.ParentFile())} {
		fd, err := protodesc.NewFile(f, chainResolver{first: simBackendFiles, then: protoregistry.GlobalFiles})
		if err != nil {
			panic(err)
		}
		if err := simBackendFiles.RegisterFile(fd); err != nil {
			panic(err)
		}
	}
}

// backendBuildOf returns m as a message of the backends' build of its type
// (nil if the backends run the build the harness links).
func backendBuildOf(m proto.Message) proto.Message {
	d, err := simBackendFiles.FindDescriptorByName(m.ProtoReflect().Descriptor().FullName())
	if err != nil {
		return nil
	}
	md, ok := d.(protoreflect.MessageDescriptor)
	if !ok {
		return nil
	}
	b, err := proto.Marshal(m)
	if err != nil {
		panic(err)
	}
	dm := dynamicpb.NewMessage(md)
	if err := proto.Unmarshal(b, dm); err != nil {
		panic(err)
	}
	return dm
}

type chainResolver struct {
	first, then *protoregistry.Files
	skipSim     bool // the sim/*.proto files come from 'then' (the older build)
}

func (c chainResolver) FindFileByPath(path string) (protoreflect.FileDescriptor, error) {
	if c.skipSim && strings.HasPrefix(path, "sim/") {
		return c.then.FindFileByPath(path)
	}
	if fd, err := c.first.FindFileByPath(path); err == nil {
		return fd, nil
	}
	return c.then.FindFileByPath(path)
}

func (c chainResolver) FindDescriptorByName(name protoreflect.FullName) (protoreflect.Descriptor, error) {
	if c.skipSim && strings.HasPrefix(string(name), "sim.shop.") {
		return c.then.FindDescriptorByName(name)
	}
	if d, err := c.first.FindDescriptorByName(name); err == nil {
		return d, nil
	}
	return c.then.FindDescriptorByName(name)
}

// schemaResolver answers reflection lookups with the version of the
// descriptors the backend currently runs.
type schemaResolver struct{ p *svcProvider }

func (r schemaResolver) FindFileByPath(path string) (protoreflect.FileDescriptor, error) {
	if r.p.schemaVersion() == 2 && path == schemaV2File.Path() {
		return schemaV2File, nil
	}
	return r.p.files().FindFileByPath(path)
}

func (r schemaResolver) FindDescriptorByName(name protoreflect.FullName) (protoreflect.Descriptor, error) {
	if r.p.schemaVersion() == 2 {
		if d, err := schemaV2Files.FindDescriptorByName(name); err == nil {
			return d, nil
		}
	}
	return r.p.files().FindDescriptorByName(name)
}

func (p *svcProvider) GetServiceInfo() map[string]grpc.ServiceInfo {
	p.mu.Lock()
	defer p.mu.Unlock()
	out := map[string]grpc.ServiceInfo{}
	for _, s := range p.advertised {
		out[s] = grpc.ServiceInfo{}
	}
	return out
}

func (p *svcProvider) get() []string {
	p.mu.Lock()
	defer p.mu.Unlock()
	return append([]string(nil), p.advertised...)
}

func (p *svcProvider) set(svcs []string) {
	p.mu.Lock()
	p.advertised = append([]string(nil), svcs...)
	p.mu.Unlock()
}

// faultyReflection wraps the reflection service so that a registration can be
// made to fail after a number of replies.
type faultyReflection struct {
	rpb.ServerReflectionServer
	mu        sync.Mutex
	failAfter int // <0: never
	clean     bool // ... and then end the stream with status OK instead of an error (the client sees io.EOF)
	errReply  bool // ... or answer that one request with an ErrorResponse (NOT_FOUND) and carry on
	endErr    bool // every request is answered; when the client has ended its side, the stream ends with an error status
	active    int // reflection streams whose server handler has not returned yet
}

var errReflectionCleanEnd = errors.New("sim: reflection stream ended early on purpose")

func (f *faultyReflection) activeStreams() int {
	f.mu.Lock()
	defer f.mu.Unlock()
	return f.active
}

var errReflection = errors.New("sim: reflection stream broken on purpose")

type countingStream struct {
	rpb.ServerReflection_ServerReflectionInfoServer
	f *faultyReflection
	n int
}

func (s *countingStream) Send(m *rpb.ServerReflectionResponse) error {
	s.f.mu.Lock()
	limit := s.f.failAfter
	s.f.mu.Unlock()
	if limit >= 0 && s.n >= limit {
		s.f.mu.Lock()
		clean, errReply := s.f.clean, s.f.errReply
		s.f.mu.Unlock()
		if errReply {
			if s.n == limit {
				m = &rpb.ServerReflectionResponse{ValidHost: m.ValidHost, OriginalRequest: m.OriginalRequest,
					MessageResponse: &rpb.ServerReflectionResponse_ErrorResponse{ErrorResponse: &rpb.ErrorResponse{ErrorCode: 5, ErrorMessage: "sim: not found on purpose"}}}
			}
			s.n++
			return s.ServerReflection_ServerReflectionInfoServer.Send(m)
		}
		if clean {
			return errReflectionCleanEnd
		}
		return errReflection
	}
	s.n++
	return s.ServerReflection_ServerReflectionInfoServer.Send(m)
}

func (f *faultyReflection) ServerReflectionInfo(stream rpb.ServerReflection_ServerReflectionInfoServer) error {
	f.mu.Lock()
	f.active++
	f.mu.Unlock()
	defer func() {
		f.mu.Lock()
		f.active--
		f.mu.Unlock()
	}()
	err := f.ServerReflectionServer.ServerReflectionInfo(&countingStream{ServerReflection_ServerReflectionInfoServer: stream, f: f})
	if errors.Is(err, errReflectionCleanEnd) || err != nil && strings.Contains(err.Error(), errReflectionCleanEnd.Error()) {
		return nil // the stream just ends, status OK
	}
	f.mu.Lock()
	endErr := f.endErr
	f.mu.Unlock()
	if err == nil && endErr {
		return errReflection // everything was answered; the stream still ends badly
	}
	return err
}

func (f *faultyReflection) setEndErr(v bool) {
	f.mu.Lock()
	f.endErr = v
	f.mu.Unlock()
}

func (f *faultyReflection) setFailAfter(n int) { f.setFail(n, false) }

func (f *faultyReflection) setFail(n int, clean bool) {
	f.mu.Lock()
	f.failAfter, f.clean, f.errReply = n, clean, false
	f.mu.Unlock()
}

func (f *faultyReflection) setErrReply(n int) {
	f.mu.Lock()
	f.failAfter, f.clean, f.errReply = n, false, true
	f.mu.Unlock()
}

// reflJ: the number in a "refl:<j>" / "refl:<j>c" fault.
func reflJ(fail string) string {
	return strings.TrimSuffix(strings.TrimSuffix(strings.TrimPrefix(fail, "refl:"), "c"), "e")
}

// verboseReflection is a second, independent implementation of the reflection
// service: it answers every file request with the file and ALL of its
// transitive dependencies, whether or not it already sent them on this stream
// (grpc-go's own server leaves out what it has sent before; both behaviours
// are within the protocol, and other servers do repeat files).
type verboseReflection struct {
	rpb.UnimplementedServerReflectionServer
	provider  *svcProvider
	depsFirst bool
}

func fileWithDeps(fd protoreflect.FileDescriptor, seen map[string]bool, out *[][]byte) {
	if seen[fd.Path()] {
		return
	}
	seen[fd.Path()] = true
	b, _ := proto.Marshal(protodesc.ToFileDescriptorProto(fd))
	*out = append(*out, b)
	imps := fd.Imports()
	for i := 0; i < imps.Len(); i++ {
		fileWithDeps(imps.Get(i).FileDescriptor, seen, out)
	}
}

func (v *verboseReflection) ServerReflectionInfo(stream rpb.ServerReflection_ServerReflectionInfoServer) error {
	for {
		req, err := stream.Recv()
		if err != nil {
			if err == io.EOF {
				return nil
			}
			return err
		}
		resp := &rpb.ServerReflectionResponse{ValidHost: req.Host, OriginalRequest: req}
		fileResp := func(fd protoreflect.FileDescriptor, err error) {
			if err != nil {
				resp.MessageResponse = &rpb.ServerReflectionResponse_ErrorResponse{ErrorResponse: &rpb.ErrorResponse{ErrorCode: 5, ErrorMessage: err.Error()}}
				return
			}
			var files [][]byte
			fileWithDeps(fd, map[string]bool{}, &files)
			if v.depsFirst {
				for i, j := 0, len(files)-1; i < j; i, j = i+1, j-1 {
					files[i], files[j] = files[j], files[i]
				}
			}
			resp.MessageResponse = &rpb.ServerReflectionResponse_FileDescriptorResponse{FileDescriptorResponse: &rpb.FileDescriptorResponse{FileDescriptorProto: files}}
		}
		switch r := req.MessageRequest.(type) {
		case *rpb.ServerReflectionRequest_ListServices:
			var svcs []*rpb.ServiceResponse
			for _, name := range v.provider.get() {
				svcs = append(svcs, &rpb.ServiceResponse{Name: name})
			}
			resp.MessageResponse = &rpb.ServerReflectionResponse_ListServicesResponse{ListServicesResponse: &rpb.ListServiceResponse{Service: svcs}}
		case *rpb.ServerReflectionRequest_FileContainingSymbol:
			d, err := (schemaResolver{v.provider}).FindDescriptorByName(protoreflect.FullName(r.FileContainingSymbol))
			if err != nil {
				fileResp(nil, err)
			} else {
				fileResp(d.ParentFile(), nil)
			}
		case *rpb.ServerReflectionRequest_FileByFilename:
			fileResp((schemaResolver{v.provider}).FindFileByPath(r.FileByFilename))
		default:
			resp.MessageResponse = &rpb.ServerReflectionResponse_ErrorResponse{ErrorResponse: &rpb.ErrorResponse{ErrorCode: 12, ErrorMessage: "not supported by the simulated backend"}}
		}
		if err := stream.Send(resp); err != nil {
			return err
		}
	}
}

type backend struct {
	spec     *BackendSpec
	lis      *bufconn.Listener
	srv      *grpc.Server
	cc       *grpc.ClientConn
	world    *World
	provider *svcProvider
	refl     *faultyReflection
	mu       sync.Mutex
	conns    []net.Conn
	dead     bool
}

func newBackend(sim *core.Sim, spec *BackendSpec, reqs map[int]*reqState) (*backend, error) {
	b := &backend{spec: spec}
	b.lis = bufconn.Listen(1 << 20)
	b.srv = grpc.NewServer()
	b.world = &World{sim: sim, reqs: reqs, tag: spec.Tag, serverMD: newServerMD()}
	for _, svc := range spec.Services {
		b.srv.RegisterService(b.world.serviceDesc(svc), b.world)
	}
	b.provider = &svcProvider{}
	if adv, ok := defaultAdv[spec.Tag]; ok && len(spec.Services) == len(allProbeServices) {
		b.provider.set(adv) // registrysim backends implement everything and advertise a subset
	} else {
		b.provider.set(spec.Services)
	}
	var inner rpb.ServerReflectionServer = reflection.NewServer(reflection.ServerOptions{Services: b.provider, DescriptorResolver: schemaResolver{b.provider}})
	if spec.Verbose {
		inner = &verboseReflection{provider: b.provider, depsFirst: spec.DepsFirst}
	}
	b.refl = &faultyReflection{ServerReflectionServer: inner, failAfter: -1}
	rpb.RegisterServerReflectionServer(b.srv, b.refl)
	go b.srv.Serve(b.lis)
	// (every backend is dialled under the same name, as replicas behind one
	// address are: only the *grpc.ClientConn tells them apart)
	cc, err := grpc.NewClient("passthrough:///sim-replicas",
		grpc.WithContextDialer(func(ctx context.Context, _ string) (net.Conn, error) {
			b.mu.Lock()
			dead := b.dead
			b.mu.Unlock()
			if dead {
				return nil, errors.New("sim: backend is down")
			}
			c, err := b.lis.DialContext(ctx)
			if err == nil {
				b.mu.Lock()
				b.conns = append(b.conns, c)
				b.mu.Unlock()
			}
			return c, err
		}),
		grpc.WithTransportCredentials(insecure.NewCredentials()),
	)
	if err != nil {
		return nil, err
	}
	b.cc = cc
	return b, nil
}

// kill closes the connection(s) to the backend and keeps it down.
func (b *backend) kill() {
	b.mu.Lock()
	b.dead = true
	conns := b.conns
	b.conns = nil
	b.mu.Unlock()
	for _, c := range conns {
		c.Close()
	}
}

// (read without the mutex: the registrar tasks must not be ordered by it)
//
//go:norace
func (b *backend) isDead() bool { return b.dead }

func (b *backend) stop() {
	b.cc.Close()
	b.srv.Stop()
	b.lis.Close()
}

func (mr *muxRun) startBackends(sim *core.Sim, world *World) error {
	for i := range mr.sc.Backends {
		b, err := newBackend(sim, &mr.sc.Backends[i], world.reqs)
		if err != nil {
			return err
		}
		mr.backends = append(mr.backends, b)
		if mr.sc.SkipRegister {
			continue
		}
		ctx, cancel := context.WithTimeout(context.Background(), 30*time.Second)
		err = mr.mux.RegisterConn(ctx, b.cc)
		cancel()
		if err != nil {
			return err
		}
	}
	return nil
}

func (mr *muxRun) stopBackends() {
	for _, b := range mr.backends {
		b.stop()
	}
}

func (mr *muxRun) backendByTag(tag string) *backend {
	for _, b := range mr.backends {
		if b.spec.Tag == tag {
			return b
		}
	}
	return nil
}
