//go:debug randseednop=0

package engine

import "testing"

// TestWorker is the entry point used by /verif/check.sh (see worker.go).
func TestWorker(t *testing.T) { WorkerMain(t) }
