// Command instrument reads larking's sources from the current working tree,
// inserts scheduler yield points by pattern (never written back to /repo) and
// emits a `go build -overlay` file.
//
// Insertions are spliced into the original text on the same line as the
// statement they belong to, so line numbers in stack traces and race reports
// still refer to the real files.
//
//	lock gate + ownership notes around m.mu.Lock() / m.mu.Unlock() / defer m.mu.Unlock()
//	verifYield before and after every storeState(...) statement
//	verifYield at entry of state.clone, appendHandler, removeHandler, addRule, addConnHandler, processFile
//	verifYield after every assignment whose right-hand side calls loadState()
//	verifYield after every assignment whose right-hand side calls NewStream(...) (the proxy's backend stream)
package main

import (
	"encoding/json"
	"flag"
	"fmt"
	"go/ast"
	"go/parser"
	"go/token"
	"os"
	"path/filepath"
	"sort"
	"strings"
)

type edit struct {
	off  int
	text string
	seq  int
}

// receiver.func; the recursive trie walkers (path.clone, path.delRule) are left
// alone: a yield per trie node would only multiply steps.
var entryFuncs = map[string]bool{
	"state.clone": true, "state.appendHandler": true, "state.removeHandler": true, "path.addRule": true,
	"state.addConnHandler": true, "state.processFile": true,
}

func main() {
	src := flag.String("src", "/repo/larking", "package directory")
	out := flag.String("out", "", "directory for rewritten files and overlay.json")
	as := flag.String("as", "", "directory the overlay keys refer to (default: -src); with -as every source file is mapped, so a scratch copy can stand in for that directory")
	flag.Parse()
	if *out == "" {
		fmt.Fprintln(os.Stderr, "instrument: -out required")
		os.Exit(2)
	}
	files, err := filepath.Glob(filepath.Join(*src, "*.go"))
	if err != nil {
		fatal(err)
	}
	overlay := map[string]string{}
	total := 0
	sites := map[string]int{}
	for _, f := range files {
		base := filepath.Base(f)
		if strings.HasSuffix(base, "_test.go") {
			continue
		}
		if base == "verif_hooks.go" {
			if *as != "" {
				abs, _ := filepath.Abs(f)
				overlay[filepath.Join(*as, base)] = abs
			}
			continue
		}
		data, err := os.ReadFile(f)
		if err != nil {
			fatal(err)
		}
		fset := token.NewFileSet()
		af, err := parser.ParseFile(fset, f, data, parser.ParseComments)
		if err != nil {
			fatal(err)
		}
		var edits []edit
		add := func(pos token.Pos, text string) {
			edits = append(edits, edit{fset.Position(pos).Offset, text, len(edits)})
		}
		exprText := func(e ast.Expr) string {
			return string(data[fset.Position(e.Pos()).Offset:fset.Position(e.End()).Offset])
		}
		site := func(fn, kind string) string {
			k := fn + ":" + kind
			sites[k]++
			if sites[k] > 1 {
				return fmt.Sprintf("%s#%d", k, sites[k])
			}
			return k
		}
		for _, d := range af.Decls {
			fd, ok := d.(*ast.FuncDecl)
			if !ok || fd.Body == nil {
				continue
			}
			fname := fd.Name.Name
			recv := ""
			if fd.Recv != nil && len(fd.Recv.List) == 1 {
				t := fd.Recv.List[0].Type
				if st, ok := t.(*ast.StarExpr); ok {
					t = st.X
				}
				if id, ok := t.(*ast.Ident); ok {
					recv = id.Name
				}
			}
			curRecvType, curRecvName = recv, ""
			if fd.Recv != nil && len(fd.Recv.List) == 1 && len(fd.Recv.List[0].Names) == 1 {
				curRecvName = fd.Recv.List[0].Names[0].Name
			}
			if entryFuncs[recv+"."+fname] {
				add(fd.Body.Lbrace+1, fmt.Sprintf(" verifYield(%q);", site(fname, "entry")))
			}
			// Statements are only wrapped where a statement list holds them
			// (a block, a case body): the init statement of an if / for /
			// switch is not a place where "a; b; c" can be spliced in.
			inList := map[ast.Stmt]bool{}
			ast.Inspect(fd.Body, func(n ast.Node) bool {
				switch b := n.(type) {
				case *ast.BlockStmt:
					for _, s := range b.List {
						inList[s] = true
					}
				case *ast.CaseClause:
					for _, s := range b.Body {
						inList[s] = true
					}
				case *ast.CommClause:
					for _, s := range b.Body {
						inList[s] = true
					}
				}
				return true
			})
			ast.Inspect(fd.Body, func(n ast.Node) bool {
				if s, ok := n.(ast.Stmt); ok && !inList[s] {
					if _, isBlock := s.(*ast.BlockStmt); !isBlock {
						switch s.(type) {
						case *ast.ExprStmt, *ast.DeferStmt, *ast.AssignStmt:
							return true // (look inside, wrap nothing here)
						}
					}
				}
				switch st := n.(type) {
				case *ast.ExprStmt:
					call, ok := st.X.(*ast.CallExpr)
					if !ok {
						return true
					}
					if recv, name := selCall(call); recv != nil && len(call.Args) == 0 && gatedMutex(exprText(recv)) {
						switch name {
						case "Lock":
							x := exprText(recv)
							add(st.Pos(), fmt.Sprintf("verifLockGate(&%s); ", x))
							add(st.End(), fmt.Sprintf("; verifLocked(&%s)", x))
						case "Unlock":
							x := exprText(recv)
							add(st.End(), fmt.Sprintf("; verifUnlocked(&%s)", x))
						}
					}
					if _, name := selCall(call); name == "storeState" {
						add(st.Pos(), fmt.Sprintf("verifYield(%q); ", site(fname, "before-store")))
						add(st.End(), fmt.Sprintf("; verifYield(%q)", site(fname, "after-store")))
					}
				case *ast.DeferStmt:
					if recv, name := selCall(st.Call); recv != nil && name == "Unlock" && len(st.Call.Args) == 0 && gatedMutex(exprText(recv)) {
						add(st.Pos(), fmt.Sprintf("defer verifUnlocked(&%s); ", exprText(recv)))
					}
				case *ast.AssignStmt:
					calls := false
					for _, r := range st.Rhs {
						ast.Inspect(r, func(m ast.Node) bool {
							if c, ok := m.(*ast.CallExpr); ok {
								if _, name := selCall(c); name == "loadState" {
									calls = true
								}
							}
							return true
						})
					}
					// (only where the call itself is the statement's right-hand
					// side: not a function literal that contains one)
					if len(st.Rhs) == 1 {
						if c, ok := st.Rhs[0].(*ast.CallExpr); ok {
							if _, name := selCall(c); name == "NewStream" {
								// the backend may act (refuse the call, answer first)
								// between the opening of its stream and the first
								// message sent on it
								add(st.End(), fmt.Sprintf("; verifYield(%q)", site(fname, "after-newstream")))
							}
						}
					}
					if calls {
						// before as well: a reader that loads the state a second
						// time gets a scheduling point between its two loads
						add(st.Pos(), fmt.Sprintf("verifYield(%q); ", site(fname, "before-load")))
						add(st.End(), fmt.Sprintf("; verifYield(%q)", site(fname, "after-load")))
					}
				}
				return true
			})
		}
		if len(edits) == 0 && *as == "" {
			continue
		}
		sort.Slice(edits, func(i, j int) bool {
			if edits[i].off != edits[j].off {
				return edits[i].off > edits[j].off
			}
			return edits[i].seq > edits[j].seq
		})
		outData := data
		for _, e := range edits {
			outData = append(outData[:e.off:e.off], append([]byte(e.text), outData[e.off:]...)...)
		}
		// Sanity: the result must still parse.
		if _, err := parser.ParseFile(token.NewFileSet(), f, outData, 0); err != nil {
			fatal(fmt.Errorf("instrumented %s does not parse: %v", base, err))
		}
		dst := filepath.Join(*out, base)
		if err := os.WriteFile(dst, outData, 0o644); err != nil {
			fatal(err)
		}
		abs, _ := filepath.Abs(f)
		if *as != "" {
			abs = filepath.Join(*as, base)
		}
		overlay[abs] = dst
		total += len(edits)
	}
	ov, _ := json.MarshalIndent(map[string]any{"Replace": overlay}, "", " ")
	if err := os.WriteFile(filepath.Join(*out, "overlay.json"), ov, 0o644); err != nil {
		fatal(err)
	}
	var names []string
	for k := range sites {
		names = append(names, k)
	}
	sort.Strings(names)
	fmt.Printf("instrument: %d insertions in %d files; sites: %s\n", total, len(overlay), strings.Join(names, " "))
}

// gatedMutex: only the registration mutex of the Mux is held across yield
// points; per-stream mutexes guard straight-line sections in which no task can
// park, so gating them would only add steps. Recognised by shape, not by name:
// a field of the receiver inside a method of *Mux / Mux.
func gatedMutex(expr string) bool {
	return curRecvType == "Mux" && curRecvName != "" && strings.HasPrefix(expr, curRecvName+".") && strings.Count(expr, ".") == 1
}

var curRecvType, curRecvName string

func selCall(c *ast.CallExpr) (ast.Expr, string) {
	sel, ok := c.Fun.(*ast.SelectorExpr)
	if !ok {
		return nil, ""
	}
	return sel.X, sel.Sel.Name
}

func fatal(err error) {
	fmt.Fprintln(os.Stderr, "instrument:", err)
	os.Exit(2)
}
