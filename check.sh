#!/bin/sh
# check.sh <property-id> quick|thorough        run a check
# check.sh <property-id> --replay <file>       re-execute a replay file
# check.sh build                               build everything once (setup)
cd "$(dirname "$0")" || exit 2
export GOFLAGS=-mod=mod GOPROXY=off GOSUMDB=off GOTOOLCHAIN=local
if [ "$1" = build ]; then exec python3 run.py build; fi
if [ "$2" = --replay ]; then exec python3 run.py replay "$1" "$3"; fi
exec python3 run.py check "$1" "${2:-${VERIF_TIER:-quick}}"
