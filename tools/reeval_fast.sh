#!/bin/bash
# reeval_fast.sh [parallel]  - every seeded change against the current tree and
# harness: the checks named in its meta.json, cheapest first, until one detects
# it. One line per change: DETECTED <id> <check> <rule> | MISSED <id> | NOAPPLY <id>.
par=${1:-4}
cd /verif/seeded || exit 2
one() {
  d=$1
  checks=$(python3 -c "
import json
order=['C17','C16','C10','C11','C15','C06','C12','C13']
c={x.split(':')[0] for x in json.load(open('$d/meta.json'))['detected_by']}
print(' '.join(sorted(c,key=order.index)))")
  for c in $checks; do
    out=$(VERIF_WORKERS=4 /verif/tools/try_mutant.sh /verif/seeded/$d/patch.diff quick $c 2>&1)
    case "$out" in
      *"does not apply"*) echo "NOAPPLY $d"; return;;
      *"exit=1"*) echo "DETECTED $d $c $(echo "$out" | grep -o 'rule=[a-z-]*' | head -1)"; return;;
    esac
  done
  echo "MISSED $d ($checks) $(echo "$out" | tail -1 | cut -c1-120)"
}
export -f one 2>/dev/null
ls -d */ | sed 's#/##' | xargs -P "$par" -I{} sh -c "$(declare -f one 2>/dev/null || true); one {}" 
