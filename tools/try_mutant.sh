#!/bin/sh
# try_mutant.sh <patch.diff> <tier> <prop> [<prop> ...]
# Evaluates a source change WITHOUT touching /repo: the patch is applied to a
# scratch copy of /repo's working tree, which stands in for /repo/larking
# through the build overlay (VERIF_REPO). Prints one line per check; logs,
# evidence and replay files go to /tmp/mut/<name>/.
patch=$1; tier=$2; shift 2
name=$(basename "$(dirname "$patch")")-$(basename "$patch" .diff)
out=/tmp/mut/$name; rm -rf "$out"; mkdir -p "$out/repo"
(cd "${VERIF_REPO_SRC:-/repo}" && git ls-files -z | xargs -0 cp --parents -t "$out/repo") || exit 2
# (git apply first; where later fix: commits have only moved or touched the
# context of the lines a patch changes, patch(1) with fuzz still places it)
(cd "$out/repo" && git init -q . 2>/dev/null; git apply "$patch" 2>/dev/null || patch -p1 -F3 -s --no-backup-if-mismatch < "$patch" >/dev/null 2>&1) || { echo "$name: patch does not apply"; exit 2; }
# a snapshot of the harness sources, so that edits made while a long
# evaluation runs do not leak into it
cp -r "${VERIF_SIM_SRC:-/verif/sim}" "$out/sim" && export VERIF_SIM="$out/sim"
cd /verif
for p in "$@"; do
  start=$(date +%s)
  VERIF_REPO="$out/repo" VERIF_BUILD="$out/build" VERIF_OUTDIR="$out" ./check.sh "$p" "$tier" > "$out/$p.log" 2>&1; rc=$?
  end=$(date +%s)
  v=$(grep -c '^VIOLATION' "$out/$p.log")
  echo "$name $p exit=$rc violations=$v $((end-start))s $(grep -m1 'rule=' "$out/$p.log" | cut -c1-200)"
done
rm -rf "$out/build" "$out/repo" "$out/sim"
