#!/bin/sh
# reeval_seeded.sh [tier]  - runs every seeded change through the checks named in its meta.json
# (scratch copy through the overlay; /repo untouched). One line per (change, check).
tier=${1:-quick}
cd /verif/seeded || exit 2
for d in */; do
  d=${d%/}
  checks=$(python3 -c "import json;print(' '.join(sorted({x.split(':')[0] for x in json.load(open('$d/meta.json'))['detected_by']})))")
  /verif/tools/try_mutant.sh /verif/seeded/$d/patch.diff $tier $checks 2>&1 | cut -c1-200
done
