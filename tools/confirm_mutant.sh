#!/bin/sh
# confirm_mutant.sh <patch.diff> <demo_test.go> [race]
# In a scratch copy of /repo: (1) with the patch the package builds and the
# unedited suite passes; (2) the demonstration fails with the patch and
# (3) passes without it. Prints CONFIRMED or the step that did not hold.
patch=$1; demo=$2; race=$3
export GOFLAGS=-mod=mod GOPROXY=off GOSUMDB=off
w=$(mktemp -d /tmp/confirm.XXXXXX)
(cd "${VERIF_REPO_SRC:-/repo}" && git ls-files -z | xargs -0 cp --parents -t "$w") || exit 2
cd "$w" || exit 2
tests=$(grep -oh 'func Test[A-Za-z0-9_]*' "$demo" | sed 's/func //' | paste -sd'|')
flags="-count=1"; [ "$race" = race ] && flags="$flags -race"
res=CONFIRMED
git init -q . >/dev/null 2>&1
git apply "$patch" || res="patch-does-not-apply"
if [ "$res" = CONFIRMED ]; then
  go build ./larking || res="does-not-compile"
  go test -count=1 ./larking >"$w/suite.log" 2>&1 || res="suite-fails-with-mutant"
  cp "$demo" larking/zz_demo_test.go
  if go test $flags -run "^($tests)\$" ./larking >"$w/demo_mut.log" 2>&1; then res="demo-passes-with-mutant"; fi
  git apply -R "$patch"
  if ! go test $flags -run "^($tests)\$" ./larking >"$w/demo_clean.log" 2>&1; then res="demo-fails-without-mutant"; tail -5 "$w/demo_clean.log"; fi
fi
echo "$res  ($patch; tests: $tests)"
cd /; rm -rf "$w"
